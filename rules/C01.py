"""C01 -- curve and field arithmetic compute exactly the group law.

The group law, inverses and roots are numerical results over unbounded
integers: not decided. Decided: every entry point that receives a point
validates it on the curve before any arithmetic; every scalar is reduced mod n
before it reaches a multiplication; the curve constructor holds the SEC 1
validation steps with their comparison operators; operands with no inverse /
root are refused; SEC point octet prefixes and lengths.
"""

from __future__ import annotations

import ast

from sa import mutate as M
from sa import pattern as PT
from sa import values as VX
from sa.ctx import Ctx
from sa.loader import AnalysisError, call_name, norm, own_nodes, parent
from sa.ranges import has, has_bound, refusal_constraints
from sa.report import Report

NOTES = ("C01: decides on-curve validation before arithmetic, scalar reduction before multiplication, the SEC 1 domain-"
         "parameter refusals, refusal of operands with no inverse/root, SEC octet prefixes and lengths; the arithmetic "
         "itself (group law, inverses, roots) is not decided.")
CV = "btclib.curves.curve"
CG = "btclib.curves.curve_group"
NT = "btclib.number_theory"
SINKS = {"_mult_checked", "_libsecp256k1_multi_mult", "_libsecp256k1_multi_mult_", "_jac_from_aff", "_double_mult_python", "_multi_mult_var",
         "libsecp256k1_pubkey_sum", "libsecp256k1_pubkey_tweak_add", "Libsecp256k1PubkeyTweakChain", "add_aff_var", "_add_aff_var", "_mult", "_sec_from_point",
         "_cached_fixed_base_multiples", "_signed_odd_multiples_aff", "libsecp256k1_pubkey_from_prvkey"}

# (function, parameter holding the point / points, whether a collection)
ON_CURVE = [
    (f"{CV}.double_mult_var", "H", False), (f"{CV}.double_mult_var", "Q", False), (f"{CV}.multi_mult_var", "points", True),
    (f"{CV}.PreparedPoint.__init__", "point", False), (f"{CV}._TweakChain.__init__", "base", False), (f"{CV}._sum_var", "points", True),
    (f"{CV}._tweak_add_var", "P", False), (f"{CG}.CurveGroup.add_var", "Q1", False), (f"{CG}.CurveGroup.add_var", "Q2", False),
]


def rule_on_curve(ctx: Ctx, rep: Report) -> None:
    """C01.on_curve: a received point is proved on the curve before any arithmetic touches it."""
    rule = "C01.on_curve"
    for q, p, coll in ON_CURVE:
        fi = ctx.func(q)
        if p not in fi.params():
            raise AnalysisError(f"{q}: parameter {p} vanished")
        g = ctx.cfg(fi)
        through = []
        for c in own_nodes(fi.node):
            if isinstance(c, ast.Call) and call_name(c) == "require_on_curve" and c.args:
                a = norm(c.args[0])
                if not coll and a == p and ctx.unconditional(g, c):
                    through += g.nodes_containing(c)
                if coll:
                    st = parent(c)
                    loop = parent(st) if isinstance(st, ast.Expr) else None
                    if isinstance(loop, ast.For) and norm(loop.iter) == p and a == norm(loop.target) and loop.body[0] is st:
                        through += [m.id for m in g.nodes if m.kind == "for" and m.ast is loop]
        sinks = [c for c in own_nodes(fi.node) if isinstance(c, ast.Call) and call_name(c) in SINKS and p in {x.id for a in list(c.args) + [k.value for k in c.keywords] for x in ast.walk(a) if isinstance(x, ast.Name)}]
        # a comprehension over the collection that feeds a sink counts as a sink
        if coll:
            sinks += [c for c in own_nodes(fi.node) if isinstance(c, ast.Call) and call_name(c) in SINKS and any(isinstance(pp, (ast.ListComp, ast.GeneratorExp)) and norm(pp.generators[0].iter) == p for pp in _ancestors(c))]
        targets = [i for c in sinks for i in g.nodes_containing(c)]
        ok = bool(through) and (not targets or g.path_avoiding(targets, through) is None)
        rep.ob(rule, f"{q}({p})", ok and bool(targets or through), fi.where(),
               f"require_on_curve({p}) dominates {len(sinks)} arithmetic use(s)" if ok else f"{p} reaches arithmetic without require_on_curve: a point off the curve is answered")
    # mult: validated unless it is the generator
    m = ctx.func(f"{CV}.mult")
    g = ctx.cfg(m)
    rc = [c for c in own_nodes(m.node) if isinstance(c, ast.Call) and call_name(c) == "require_on_curve"]
    fpos = [t for t, p in g.facts_at_ast(rc[0]) if p] if rc else []
    okm = bool(rc) and len(fpos) == 2 and PT.fact(g.facts_at_ast(rc[0]), "Q is not None") and PT.fact(g.facts_at_ast(rc[0]), "Q != ec.G")
    rep.ob(rule, f"{CV}.mult(Q)", okm, m.where(), "validated unless Q is None or Q == ec.G (the generator needs none)")
    sink = [c for c in own_nodes(m.node) if isinstance(c, ast.Call) and call_name(c) == "_mult_checked"]
    rep.ob(rule, f"{CV}.mult:order", bool(rc) and bool(sink) and rc[0].lineno < sink[0].lineno, m.where(), "validation precedes the multiplication")
    roc = ctx.func(f"{CG}.CurveGroup.require_on_curve")
    rep.ob(rule, "require_on_curve:refuses", any(c.op == "falsy" and "is_on_curve" in c.subject for c in refusal_constraints(ctx, roc)), roc.where(), "raises unless is_on_curve")
    ioc = ctx.func(f"{CG}.CurveGroup.is_on_curve")
    txt = PT.text(ioc)
    vx = VX.of(ioc)
    rep.ob(rule, "is_on_curve:equation", vx.anywhere("self._y2($$Q[0]) == $$Q[1] * $$Q[1] % self.p") or vx.anywhere("self._y2($$Q[0]) == pow($$Q[1], 2, self.p)") or vx.anywhere("self._y2($$Q[0]) == $$Q[1] ** 2 % self.p"), ioc.where(), "y^2 == x^3 + ax + b (mod p)")
    rep.ob(rule, "is_on_curve:y_range", any(c.subject == "Q[1]" for c in refusal_constraints(ctx, ioc)), ioc.where(), "y outside 1..p-1 refused (0 is infinity)")
    bp = ctx.func("btclib.curves.sec_point.bytes_from_point")
    rep.ob(rule, "bytes_from_point", bool(ctx.calls_to(bp, "require_on_curve", last=True)), bp.where(), "a point is validated before it is serialized")


def _ancestors(n: ast.AST):
    p = parent(n)
    while p is not None:
        yield p
        p = parent(p)


REDUCE = [
    (f"{CV}.mult", "m"), (f"{CV}.PreparedPoint.mult", "m"), (f"{CV}.double_mult_var", "u"), (f"{CV}.double_mult_var", "v"),
    (f"{CV}._tweak_add_var", "t"), (f"{CV}._TweakChain.point", "t"),
    # "this is bytes_from_point(mult(prv_key_int, ec.G, ec), ...) and answers what that answers": the same reduction
    ("btclib.curves.sec_point.bytes_from_prv_key_int", "q"),
]


def rule_infinity_by_y(ctx: Ctx, rep: Report) -> None:
    """C01.infinity_by_y: the point at infinity is *any* affine pair with y = 0
    -- `INF` is one spelling of it, `(x, 0)` for every x is the same point and
    is what `require_on_curve` lets through -- so a caller's point is asked
    `P[1] == 0` / `not P[1]`, never compared with the constant: an `(5, 0)`
    that slips past `H == INF` reaches arithmetic (or the bindings, which
    cannot express it) as if it were a finite point."""
    rule = "C01.infinity_by_y"
    n_tests = 0
    for fi in sorted(ctx.prog.functions.values(), key=lambda f: f.qualname):
        if not (fi.module.name.startswith("btclib.curves") or fi.module.name.startswith("btclib.ecc")):
            continue
        params = set(fi.params())
        f = fi.parent
        while f is not None:
            params |= set(f.params())
            f = f.parent
        for c in own_nodes(fi.node):
            if not isinstance(c, ast.Compare):
                continue
            sides = [c.left] + list(c.comparators)
            flat = [x for sd in sides for x in (sd.elts if isinstance(sd, (ast.Tuple, ast.List, ast.Set)) else [sd])]
            if not any(isinstance(x, ast.Name) and x.id in ("INF", "INFJ") for x in flat):
                continue
            n_tests += 1
            hit = [x.id for x in flat if isinstance(x, ast.Name) and x.id in params]
            rep.ob(rule, f"{fi.qualname}:{norm(c)}", not hit, fi.where(c),
                   "compares a computed point (canonical by construction) with the constant" if not hit else
                   f"the caller's point `{hit[0]}` is compared with the constant: ({hit[0]}[0], 0) for any other x is infinity too and passes as a finite point")
    # and the guards that exist are on y: every function that branches on infinity of a parameter reads [1]
    dm = ctx.func("btclib.curves.curve.double_mult_var")
    g = ctx.cfg(dm)
    calls = [c for c in own_nodes(dm.node) if isinstance(c, ast.Call) and call_name(c) == "_libsecp256k1_multi_mult"]
    for c in calls:
        facts = g.facts_at_ast(c)
        ok = all(any(p and t == f"{pt}[1]" for t, p in facts) for pt in ("H", "Q"))
        rep.ob(rule, "double_mult_var:delegation_guard", ok, dm.where(c), "the bindings are reached only with H[1] and Q[1] non-zero")
    rep.floor(rule, 1)


def rule_operand_reduced(ctx: Ctx, rep: Report) -> None:
    """C01.operand_reduced: "exact for every operand" -- the modular helpers take
    any integer, so the operand is reduced (`a %= p`) before anything compares
    it with a residue: `a == 0`, a Legendre symbol, a `pow`. An operand that is
    a non-zero multiple of the modulus is 0 and has the root 0; compared before
    the reduction it is "not zero", its symbol is 0, and it is refused."""
    rule = "C01.operand_reduced"
    n = 0
    for q in (f"{NT}.legendre_symbol_var", f"{NT}.mod_sqrt_var", f"{NT}.tonelli_var"):
        fi = ctx.func(q)
        a, m = fi.params()[:2]
        g = ctx.cfg(fi)
        red = [x for x in own_nodes(fi.node) if (isinstance(x, ast.AugAssign) and isinstance(x.op, ast.Mod) and norm(x.target) == a and norm(x.value) == m)
               or (isinstance(x, ast.Assign) and norm(x.targets[0]) == a and isinstance(x.value, ast.BinOp) and isinstance(x.value.op, ast.Mod) and norm(x.value.left) == a and norm(x.value.right) == m)]
        uses = [x for x in own_nodes(fi.node) if (isinstance(x, ast.Compare) and any(isinstance(y, ast.Name) and y.id == a for y in [x.left] + list(x.comparators)))
                or (isinstance(x, ast.Call) and call_name(x) in ("pow", "legendre_symbol_var", "tonelli_var") and any(isinstance(y, ast.Name) and y.id == a for y in x.args))]
        n += 1
        if not red:
            rep.ob(rule, q, False, fi.where(), f"`{a}` is never reduced mod `{m}`: a multiple of the modulus is compared as it came")
            continue
        rn = [i for r in red for i in g.nodes_containing(r)]
        bad = [u for u in uses if g.path_avoiding(g.nodes_containing(u), rn) is not None]
        rep.ob(rule, q, not bad, fi.where(bad[0] if bad else red[0]), f"`{a} %= {m}` precedes every comparison and power of the operand" if not bad else
               f"`{norm(bad[0])[:60]}` is reached with the operand as it came: a non-zero multiple of the modulus is not recognised as zero and is refused (or answered) as something else")
    rep.floor(rule, 3)


def rule_coordinates_in_field(ctx: Ctx, rep: Report) -> None:
    """C01.coordinates_in_field: a point is a pair of *field elements*: the
    predicate every validation goes through refuses a y outside 1..p-1 and an x
    outside 0..p-1 before it evaluates the curve equation -- which holds mod p
    for (x + p, y) as well, so without the bound a non-canonical pair is "on
    the curve", multiplied as another point by one arithmetic and an
    OverflowError on the other."""
    from sa.ranges import has, has_bound
    rule = "C01.coordinates_in_field"
    fi = ctx.func(f"{CG}.CurveGroup.is_on_curve")
    P = fi.params()[1]
    cs = refusal_constraints(ctx, fi, accept_return=("False",))
    for i, lo, what in ((0, 0, "x"), (1, 1, "y")):
        subj = f"{P}[{i}]"
        lower = has_bound(cs, "<", lo, subject=subj) is not None or has_bound(cs, "<=", lo - 1, subject=subj) is not None
        upper = has(cs, subj, ">=", "self.p") is not None or has(cs, subj, ">", "self.p - 1") is not None
        rep.ob(rule, f"is_on_curve:{what}_in_range", lower and upper, fi.where(), f"{what} held to {lo}..p-1" if lower and upper else
               f"the {what}-coordinate is not held to {lo}..p-1 before the curve equation: ({what} + p) passes as {what}")
    rep.floor(rule, 2)


def rule_eq_key_complete(ctx: Ctx, rep: Report) -> None:
    """C01.eq_key_complete: two curves compare (and hash) equal when their
    `_eq_key`s do, and memoized tables are stored under that equality: the key
    carries every parameter the arithmetic reads -- p, a, b from the group;
    G, n and the cofactor from the curve, on top of the group's (`super()`).
    A key without `a` makes two curves that differ in it one curve: the second
    to multiply is handed the first one's tables."""
    rule = "C01.eq_key_complete"
    gk = ctx.func(f"{CG}.CurveGroup._eq_key")
    ck = ctx.func(f"{CV}.Curve._eq_key")

    def parts(fi) -> set[str]:
        out = set()
        for r in own_nodes(fi.node):
            if isinstance(r, ast.Return) and r.value is not None:
                for x in ast.walk(r.value):
                    if isinstance(x, ast.Attribute) and isinstance(x.value, ast.Name) and x.value.id == "self":
                        # `self.G[0]` is a part of G, not G: a curve on -G has the same x
                        part = isinstance(parent(x), ast.Subscript) and parent(x).value is x
                        out.add(x.attr.lstrip("_") + ("[part]" if part else ""))
                    if isinstance(x, ast.Call) and str(norm(x.func)) == "super()._eq_key":
                        out.add("<super>")
        return out
    g_, c_ = parts(gk), parts(ck)
    rep.ob(rule, "CurveGroup._eq_key", {"p", "a", "b"} <= g_, gk.where(), f"group key over {sorted(g_)}" if {"p", "a", "b"} <= g_ else f"the group's key is {sorted(g_)}: it lacks {sorted({'p', 'a', 'b'} - g_)}")
    need_c = {"G", "n", "cofactor"}
    inherits = "<super>" in c_ or {"p", "a", "b"} <= c_
    rep.ob(rule, "Curve._eq_key", need_c <= c_ and inherits, ck.where(), f"curve key over {sorted(c_)}" if need_c <= c_ and inherits else
           f"the curve's key is {sorted(c_)}: it lacks {sorted((need_c | ({'p', 'a', 'b'} if '<super>' not in c_ else set())) - c_)} -- two curves differing there are one curve to `==`, to `hash` and to the memoized tables")


def rule_glv_only_secp256k1(ctx: Ctx, rep: Report) -> None:
    """C01.glv_only_secp256k1: the endomorphism split uses constants (beta,
    lambda, the lattice basis) that are secp256k1's own: the arm that takes it
    is entered for `ec == secp256k1` and for nothing "like" it -- another curve
    y^2 = x^3 + b over the same field has another lambda, and the split answers
    a point that is on the curve and is not u*H + v*Q."""
    rule = "C01.glv_only_secp256k1"
    n = 0
    for fi in sorted(ctx.module(CV).functions.values(), key=lambda f: f.qualname):
        g = None
        for c in own_nodes(fi.node):
            if isinstance(c, ast.Call) and any(w in call_name(c).lower() for w in ("glv", "endo", "_split")) and fi.name != call_name(c):
                tgt = ctx.resolve_call(fi, c) or ""
                if not tgt.startswith("btclib.curves"):
                    continue
                g = g or ctx.cfg(fi)
                n += 1
                facts = g.facts_at_ast(c)
                ok = any(p_ and str(t) in ("ec == secp256k1", "secp256k1 == ec", "ec is secp256k1") for t, p_ in facts)
                rep.ob(rule, f"{fi.qualname}->{call_name(c)}", ok, fi.where(c), "entered for secp256k1 itself" if ok else
                       f"`{call_name(c)}` is reached under {[str(t) for t, p_ in facts if p_][:3]}: a curve that merely resembles secp256k1 is multiplied with secp256k1's endomorphism constants")
    if n == 0:
        rep.unknown(rule, "glv", f"{ctx.module(CV).relpath}:1", "no call of an endomorphism helper found by name")


def rule_reduce(ctx: Ctx, rep: Report) -> None:
    """C01.reduce: the scalar handed to a multiplication is reduced mod the order."""
    rule = "C01.reduce"
    for q, v in REDUCE:
        fi = ctx.func(q)
        defs = [n for n in own_nodes(fi.node) if (isinstance(n, (ast.Assign, ast.AnnAssign)) and norm(n.targets[0] if isinstance(n, ast.Assign) else n.target) == v)
                or (isinstance(n, ast.AugAssign) and norm(n.target) == v)]
        ok = False
        shown = None
        for d in defs:
            if isinstance(d, ast.AugAssign):
                ok |= isinstance(d.op, ast.Mod) and norm(d.value).endswith("ec.n")
                shown = norm(d)
            elif d.value is not None:
                e = d.value
                ok |= isinstance(e, ast.BinOp) and isinstance(e.op, ast.Mod) and norm(e.right).endswith("ec.n")
                shown = norm(d)
        rep.ob(rule, f"{q}({v})", ok, fi.where(), f"{shown}" if ok else f"{v} is not reduced mod ec.n before use ({shown})")
        # the reduction precedes the first sink
        if ok:
            g = ctx.cfg(fi)
            # only the definitions that reduce: `m = int(m)` ... `if m >= n: m %= n` leaves a negative m unreduced
            red = [d for d in defs if (isinstance(d, ast.AugAssign) and isinstance(d.op, ast.Mod)) or
                   (not isinstance(d, ast.AugAssign) and d.value is not None and isinstance(d.value, ast.BinOp) and isinstance(d.value.op, ast.Mod))]
            dn = [i for d in red for i in g.nodes_containing(d.value)]
            sinks = [c for c in own_nodes(fi.node) if isinstance(c, ast.Call) and (call_name(c) in SINKS or call_name(c) in ("tweak_add",)) and v in {x.id for a in c.args for x in ast.walk(a) if isinstance(x, ast.Name)}]
            tg = [i for c in sinks for i in g.nodes_containing(c)]
            held = not tg or g.path_avoiding(tg, dn) is None
            rep.ob(rule, f"{q}({v}):before_use", held, fi.where(), "reduced before the multiplication" if held else
                   f"a path reaches the multiplication without passing `{norm(red[0])}`: a scalar the test before it lets by (a negative one under `>= n`) is used as it came")
    mm = ctx.func(f"{CV}.multi_mult_var")
    comp = [n for n in own_nodes(mm.node) if isinstance(n, ast.ListComp) and norm(n.generators[0].iter) == "scalars"]
    rep.ob(rule, f"{CV}.multi_mult_var(scalars)", bool(comp) and norm(comp[0].elt) == "int_from_integer(s) % ec.n", mm.where(), "every scalar reduced mod n")
    rep.ob(rule, f"{CV}.multi_mult_var:lengths", any(c.subject == "len(scalars)" and c.op == "!=" for c in refusal_constraints(ctx, mm)), mm.where(), "as many scalars as points")


def rule_curve_ctor(ctx: Ctx, rep: Report) -> None:
    """C01.curve_ctor: the SEC 1 domain parameter validation steps."""
    rule = "C01.curve_ctor"
    gi = ctx.func(f"{CG}.CurveGroup.__init__")
    cs = refusal_constraints(ctx, gi)
    rep.ob(rule, "p_prime", any(c.op == "falsy" and c.subject == "_is_prime(p)" for c in cs), gi.where(), "p must be prime")
    # ... and "prime" has to mean it: a test that is one Fermat round lets the base's pseudoprimes through
    ip = ctx.func(f"{CG}._is_prime")
    rets = [r for r in own_nodes(ip.node) if isinstance(r, ast.Return) and r.value is not None]
    fermat_only = len(rets) == 1 and sum(1 for x in ast.walk(rets[0].value) if isinstance(x, ast.Call) and call_name(x) == "pow") == 1 \
        and not any(isinstance(x, (ast.For, ast.While)) for x in own_nodes(ip.node)) and not any(isinstance(x, ast.Call) and call_name(x) not in ("pow",) for x in ast.walk(rets[0].value))
    rep.ob(rule, "_is_prime:decides_primality", not fermat_only, ip.where(),
           "more than one Fermat round" if not fermat_only else
           "`_is_prime` is a single Fermat test to base 2: 341 = 11*31, 561, 3277 = 29*113 pass, so a curve over a ring that is no field, or with a composite order, is built rather than refused")
    for v in ("a", "b"):
        rep.ob(rule, f"0<={v}<p", has_bound(cs, "<", 0, subject=v) is not None and (has(cs, "p", "<=", v) is not None or has(cs, v, ">=", "p") is not None), gi.where(), f"0 <= {v} < p")
    rep.ob(rule, "discriminant", any(c.subject == "d % p" and c.op == "==" and c.value == 0 for c in cs) and "d = 4 * a * a * a + 27 * b * b" in norm(gi.node), gi.where(), "4a^3 + 27b^2 != 0 (mod p)")
    ci = ctx.func(f"{CV}.Curve.__init__")
    cc = refusal_constraints(ctx, ci)
    rep.ob(rule, "n_prime", any(c.op == "falsy" and c.subject == "_is_prime(n)" for c in cc), ci.where(), "n must be prime")
    tests = [norm(n.test) for n in own_nodes(ci.node) if isinstance(n, ast.If)]
    rep.ob(rule, "hasse", "cofactor < 2 and (not self.p + 1 - delta <= n <= self.p + 1 + delta)" in tests and "delta = isqrt(4 * self.p)" in norm(ci.node), ci.where(), "p+1-delta <= n <= p+1+delta with delta = isqrt(4p), both bounds inclusive")
    rep.ob(rule, "generator_not_inf", any(c.subject == "self.G[1]" and c.op == "==" and c.value == 0 for c in cc), ci.where(), "the generator is not infinity")
    oc = [c for c in cc if "_mult(n, self.GJ, self)[2]" in c.subject and c.op == "!=" and c.value == 0]
    rep.ob(rule, "order_check", bool(oc) and any(t == "order_check" and p for t, p in oc[0].facts), ci.where(), "n*G == INF, skipped only by order_check=False")
    rep.ob(rule, "cofactor", any(c.subject == "cofactor" and c.op == "!=" and c.value_text == "exp_cofactor" for c in cc) and "exp_cofactor = (1 + delta + self.p) // n" in norm(ci.node), ci.where(), "cofactor == (1 + delta + p) // n")
    rep.ob(rule, "n!=p", any(c.subject == "n" and c.op == "==" and c.value_text == "self.p" for c in cc), ci.where(), "anomalous curves (n == p) refused")
    g = ctx.cfg(ci)
    mv = [c for c in own_nodes(ci.node) if isinstance(c, ast.Call) and call_name(c) == "_assert_mov_resistant"]
    rep.ob(rule, "mov:called_under_flag", bool(mv) and ("weakness_check", True) in g.facts_at_ast(mv[0]) and not any("order_check" in t for t, _ in g.facts_at_ast(mv[0])), ci.where(), "MOV check skipped only by weakness_check=False")
    mo = ctx.func(f"{CV}._assert_mov_resistant")
    loops = [n for n in own_nodes(mo.node) if isinstance(n, ast.For)]
    rng = ctx.fold(loops[0].iter, mo.module) if loops else None
    rep.ob(rule, "mov:range", isinstance(rng, range) and (rng.start, rng.stop) == (1, 100) and any("pow(p, i, n)" in c.subject and c.op == "==" and c.value == 1 for c in refusal_constraints(ctx, mo)), mo.where(), "p^i != 1 (mod n) for 1 <= i < 100")
    gp = ctx.func(f"{CV}._generator_from_point")
    cg = refusal_constraints(ctx, gp)
    rep.ob(rule, "generator_on_curve", any("is_on_curve" in c.subject and c.op == "falsy" for c in cg) and any(c.subject == "len(G)" and c.op == "!=" and c.value == 2 for c in cg), gp.where(), "G is a pair on the curve")
    kd = {a.arg: d for a, d in zip(ci.node.args.args[-len(ci.node.args.defaults):], ci.node.args.defaults)}
    rep.ob(rule, "checks_on_by_default", ctx.fold(kd.get("weakness_check"), ci.module) is True and ctx.fold(kd.get("order_check"), ci.module) is True, ci.where(), "both checks default to True")


def rule_refuse_arith(ctx: Ctx, rep: Report) -> None:
    """C01.refuse_arith: an operand with no inverse / no root is refused."""
    rule = "C01.refuse_arith"
    mi = ctx.func(f"{NT}.mod_inv_var")
    tr = [n for n in own_nodes(mi.node) if isinstance(n, ast.Try)]
    ok = bool(tr) and any(norm(h.type) == "ValueError" and any(isinstance(r, ast.Raise) and "BTClibValueError" in norm(r) for r in ast.walk(h)) for h in tr[0].handlers) \
        and any(isinstance(c, ast.Call) and norm(c) == "pow(a, -1, m)" for s in tr[0].body for c in ast.walk(s))
    rep.ob(rule, "mod_inv_var", ok, mi.where(), "pow(a, -1, m): no inverse becomes a BTClibValueError")
    m2 = ctx.func(f"{NT}.mod_inv")
    txt = PT.text(m2)
    vx = VX.of(m2)
    bb: dict[str, str] = {}
    rep.ob(rule, "mod_inv:blinding", (vx.anywhere("mod_inv_var(a * $$b % m, m) * $$b % m", bb) or vx.anywhere("mod_inv_var($$b * a % m, m) * $$b % m", bb)) and "randbelow(m - 1)" in bb.get("$$b", "") and ("1 + " in bb["$$b"] or "+ 1" in bb["$$b"]),
           m2.where(), "blinded by a non-zero random factor, unblinded by the same")
    hs = [h for t_ in own_nodes(m2.node) if isinstance(t_, ast.Try) for h in t_.handlers if h.type is not None and "BTClibValueError" in norm(h.type)]
    fb = any(any(isinstance(c, ast.Call) and norm(c) == "mod_inv_var(a, m)" for b_ in h.body for c in ast.walk(b_)) and h.body and isinstance(h.body[-1], ast.Return) for h in hs)
    rep.ob(rule, "mod_inv:fallback_refuses", fb, m2.where(), "a blinded failure is re-asked unblinded (so a true non-invertible still raises)")
    for q in (f"{NT}.mod_sqrt_var", f"{NT}.tonelli_var"):
        fi = ctx.func(q)
        rs = [r for r in own_nodes(fi.node) if isinstance(r, ast.Raise) and "BTClibValueError" in norm(r)]
        rep.ob(rule, fi.name, bool(rs), fi.where(), f"{len(rs)} refusal(s) of a non-residue")
    for q in (f"{NT}.mod_inv_batch", f"{NT}.mod_inv_batch_var"):
        fi = ctx.func(q)
        from sa.effects import Raises
        r = Raises(ctx).of(fi)
        rep.ob(rule, fi.name, any("BTClibValueError" in x for x in r), fi.where(), "a non-invertible element of the batch is refused")
    mo = ctx.func(f"{NT}._assert_valid_modulus")
    rep.ob(rule, "modulus_positive", any(c.op in ("<=", "<") for c in refusal_constraints(ctx, mo)), mo.where(), "non-positive modulus refused")
    yv = ctx.func(f"{CG}.CurveGroup.y_var")
    rep.ob(rule, "y_var", bool(ctx.calls_to(yv, "mod_sqrt_var", last=True)) or "mod_sqrt" in norm(yv.node), yv.where(), "the lift goes through mod_sqrt (which refuses non-residues)")


def rule_sec_prefix(ctx: Ctx, rep: Report) -> None:
    """C01.sec_prefix: SEC 1 octet string prefixes and lengths."""
    rule = "C01.sec_prefix"
    pf = ctx.func("btclib.curves.sec_point.point_from_octets")
    tests = [norm(n.test) for n in own_nodes(pf.node) if isinstance(n, ast.If)]
    rep.ob(rule, "compressed_prefixes", "prefix in {2, 3}" in tests, pf.where(), "0x02 / 0x03 compressed")
    rep.ob(rule, "uncompressed_prefixes", "prefix == 4 or (hybrid and prefix in {6, 7})" in tests, pf.where(), "0x04, and 0x06/0x07 only with hybrid=True")
    cs = refusal_constraints(ctx, pf)
    rep.ob(rule, "compressed_length", any(c.subject == "bsize" and c.op == "!=" and c.value_text == "ec.p_size + 1" for c in cs), pf.where(), "p_size + 1 octets")
    rep.ob(rule, "uncompressed_length", any(c.subject == "bsize" and c.op == "!=" and c.value_text == "2 * ec.p_size + 1" for c in cs), pf.where(), "2*p_size + 1 octets")
    els = [n for n in own_nodes(pf.node) if isinstance(n, ast.Raise)]
    g = ctx.cfg(pf)
    rep.ob(rule, "other_prefix_refused", g.path_avoiding([g.exit_return], [i for n in g.nodes if n.kind == "test" and norm(n.ast) in ("prefix in {2, 3}", "prefix == 4", "prefix in {6, 7}") for i in [n.id]]) is None, pf.where(), "no return without a prefix test")
    txt = PT.text(pf)
    vx = VX.of(pf)
    rep.ob(rule, "parity_selects_y", vx.anywhere("$$y if $$prefix == 2 else ec.p - $$y") or vx.anywhere("ec.p - $$y if $$prefix == 3 else $$y"), pf.where(), "0x02 = even y, 0x03 = odd y")
    rep.ob(rule, "uncompressed_on_curve", "require_on_curve" in txt or "is_on_curve" in txt, pf.where(), "an uncompressed point is checked against the curve")
    hy = [n for n in own_nodes(pf.node) if isinstance(n, ast.If) and "hybrid" in norm(n.test) and "% 2" in norm(n.test) or (isinstance(n, ast.Compare) and "prefix" in norm(n) and "% 2" in norm(n))]
    rep.ob(rule, "hybrid_parity", bool(hy) or ("prefix & 1" in txt or "prefix % 2" in txt), pf.where(), "a hybrid prefix's parity must match y")


def rule_own_fields(ctx: Ctx, rep: Report) -> None:
    """C01.own_fields: an object hands its own fields to the functions it delegates to (see sigcommon.rule_own_fields_forwarded)."""
    from rules.sigcommon import rule_own_fields_forwarded
    rule_own_fields_forwarded(ctx, rep, "C01.own_fields", ('btclib.curves',), 6)


def rule_params_forwarded_(ctx: Ctx, rep: Report) -> None:
    """C01.params_forwarded: a parameter is handed on to callees that have a parameter of the same name (see sigcommon.rule_params_forwarded)."""
    from rules.sigcommon import rule_params_forwarded
    rule_params_forwarded(ctx, rep, "C01.params_forwarded", ('btclib.curves', 'btclib.number_theory'), 150)


def rule_bindings_behind_dispatch(ctx: Ctx, rep: Report) -> None:
    """C01.bindings_behind_dispatch: the group law has special cases libsecp256k1
    cannot express -- 0*Q, Q = infinity, a sum that cancels -- and the
    dispatching functions (`_mult_checked`, `double_mult_var`,
    `multi_mult_var`) take the bindings only past guards for them, answering
    the rest in Python. The arithmetic wrapper is therefore called from those
    three and from nowhere else (C04.expressible's census, reported here for
    the group-law clause: u*H + v*Q with v = 0 must be u*H, not an exception)."""
    from rules import C04
    tmp = Report("C04", rep.tier)
    tmp.quiet = True
    C04.rule_expressible(ctx, tmp)
    n = 0
    for o in tmp.obs:
        if ":calls:" in o.instance or "guard_walks" in o.instance or o.instance.startswith("btclib.curves.curve"):
            n += 1
            rep.ob("C01.bindings_behind_dispatch", o.instance, o.held, o.site, o.detail)
    rep.floor("C01.bindings_behind_dispatch", 4)


def rule_generator_in_field(ctx: Ctx, rep: Report) -> None:
    """C01.generator_in_field: a curve is stated by its parameters, and its
    generator by two field elements: the coordinates a caller states are taken
    as they are and held to the field by `is_on_curve` -- never reduced mod p
    first, which would accept (x + p, y) as the generator and make two
    different statements one curve."""
    rule = "C01.generator_in_field"
    fi = ctx.func(f"{CV}._generator_from_point")
    mods = [b for b in own_nodes(fi.node) if isinstance(b, ast.BinOp) and isinstance(b.op, ast.Mod)]
    rep.ob(rule, "_generator_from_point:no_reduction", not mods, fi.where(mods[0] if mods else None), "the coordinates are tested as stated" if not mods else
           f"`{norm(mods[0])[:60]}` reduces a stated coordinate before it is tested: a coordinate outside the field is accepted as the one it is congruent to")
    calls = [c for c in own_nodes(fi.node) if isinstance(c, ast.Call) and call_name(c) == "is_on_curve"]
    rep.ob(rule, "_generator_from_point:tested", bool(calls), fi.where(), "the point is tested with is_on_curve (which holds it to the field)")
    rep.floor(rule, 2)


def rule_point_coordinates_unreduced_(ctx: Ctx, rep: Report) -> None:
    """C01.point_coordinates_unreduced: no pair is built from a point's coordinates with the x reduced mod n (see sigcommon.rule_point_coordinates_unreduced)."""
    from rules.sigcommon import rule_point_coordinates_unreduced
    rule_point_coordinates_unreduced(ctx, rep, "C01.point_coordinates_unreduced", ('btclib.curves', 'btclib.ecc'))


def rule_draw_never_empty(ctx: Ctx, rep: Report) -> None:
    """C01.draw_never_empty: the randomised helpers (the blinding factor of a
    Jacobian point, the masks of the modular inverses) draw with
    `secrets.randbelow(M - c)`, which raises on an empty range: with c = 1
    every modulus from 2 up has something to draw, with c >= 2 the smallest
    fields the constructor admits (F_3) have not, unless a test `M > c`
    stands in front. "On every curve" includes the toy ones."""
    rule = "C01.draw_never_empty"
    n = 0
    for q, fi in sorted(ctx.prog.functions.items()):
        if not (q.startswith("btclib.curves.") or q.startswith("btclib.number_theory.")):
            continue
        for c in own_nodes(fi.node):
            if not (isinstance(c, ast.Call) and call_name(c) == "randbelow" and len(c.args) == 1):
                continue
            e = c.args[0]
            n += 1
            if not (isinstance(e, ast.BinOp) and isinstance(e.op, ast.Sub) and isinstance(e.right, ast.Constant) and isinstance(e.right.value, int)):
                rep.ob(rule, f"{q}:{norm(c)}", True, fi.where(c), "not of the form M - c")
                continue
            k, m = e.right.value, norm(e.left)
            guarded = False
            p_ = parent(c)
            while p_ is not None and p_ is not fi.node:
                if isinstance(p_, (ast.IfExp, ast.If)) and norm(p_.test).replace(" ", "") in (f"{m}>{k}", f"{m}>={k + 1}", f"{k}<{m}"):
                    guarded = True
                p_ = parent(p_)
            ok = k <= 1 or guarded
            rep.ob(rule, f"{q}:{norm(c)}", ok, fi.where(c), "a range that is never empty" if ok else
                   f"`{norm(c)}` is an empty range, and a ValueError, for {m} = {k}: every multiplication on a curve over F_{k} fails")
    rep.floor(rule, 3)


RULES = [
    ("C01.draw_never_empty", rule_draw_never_empty),

    ("C01.point_coordinates_unreduced", rule_point_coordinates_unreduced_),

    ("C01.bindings_behind_dispatch", rule_bindings_behind_dispatch),
    ("C01.generator_in_field", rule_generator_in_field),
    ("C01.params_forwarded", rule_params_forwarded_),
    ("C01.own_fields", rule_own_fields),
    ("C01.on_curve", rule_on_curve),
    ("C01.infinity_by_y", rule_infinity_by_y),
    ("C01.coordinates_in_field", rule_coordinates_in_field),
    ("C01.eq_key_complete", rule_eq_key_complete),
    ("C01.glv_only_secp256k1", rule_glv_only_secp256k1),
    ("C01.reduce", rule_reduce),
    ("C01.operand_reduced", rule_operand_reduced),
    ("C01.curve_ctor", rule_curve_ctor),
    ("C01.refuse_arith", rule_refuse_arith),
    ("C01.sec_prefix", rule_sec_prefix),
]

CONTROLS = [
    {"rule": "C01.eq_key_complete", "name": "the curve's equality key forgets a", "module": CV,
     "edit": lambda ctx: M.sub_expr(ctx, f"{CV}.Curve._eq_key", lambda n: isinstance(n, ast.Return), "return (self.p, self._b, *self.G, self.n, self.cofactor)")},
    {"rule": "C01.coordinates_in_field", "name": "is_on_curve bounds y only (F22)", "module": CG,
     "edit": lambda ctx: M.drop_if(ctx, f"{CG}.CurveGroup.is_on_curve", lambda n: "Q[0]" in norm(n.test) and "self.p" in norm(n.test))},
    {"rule": "C01.operand_reduced", "name": "tonelli_var compares the operand before reducing it", "module": NT,
     "edit": lambda ctx: M.sub_expr(ctx, f"{NT}.tonelli_var", lambda n: isinstance(n, ast.AugAssign) and isinstance(n.op, ast.Mod), "pass")},
    {"rule": "C01.infinity_by_y", "name": "double_mult_var asks for infinity by equality with INF", "module": "btclib.curves.curve",
     "edit": lambda ctx: M.sub_expr(ctx, "btclib.curves.curve.double_mult_var", lambda n: isinstance(n, ast.BoolOp) and "H[1]" in norm(n) and "_libsecp256k1_serves" in norm(n),
                                    "u and v and INF not in (H, Q) and _libsecp256k1_serves(ec, None)")},
    {"rule": "C01.on_curve", "name": "double_mult_var trusts H", "module": CV,
     "edit": lambda ctx: M.sub_expr(ctx, f"{CV}.double_mult_var", lambda n: isinstance(n, ast.Expr) and norm(n) == "ec.require_on_curve(H)", "pass")},
    {"rule": "C01.on_curve", "name": "multi_mult_var validates only the first point", "module": CV,
     "edit": lambda ctx: M.sub_expr(ctx, f"{CV}.multi_mult_var", lambda n: isinstance(n, ast.For) and "require_on_curve" in norm(n), "ec.require_on_curve(points[0])")},
    {"rule": "C01.reduce", "name": "double_mult_var leaves v unreduced", "module": CV,
     "edit": lambda ctx: M.sub_expr(ctx, f"{CV}.double_mult_var", M.is_text("v = int_from_integer(v) % ec.n"), "v = int_from_integer(v)")},
    {"rule": "C01.curve_ctor", "name": "Hasse upper bound exclusive", "module": CV,
     "edit": lambda ctx: M.sub_expr(ctx, f"{CV}.Curve.__init__", M.is_text("self.p + 1 - delta <= n <= self.p + 1 + delta"), "self.p + 1 - delta <= n < self.p + 1 + delta")},
    {"rule": "C01.curve_ctor", "name": "MOV loop stops at 50", "module": CV,
     "edit": lambda ctx: M.sub_expr(ctx, f"{CV}._assert_mov_resistant", M.is_text("range(1, 100)"), "range(1, 50)")},
    {"rule": "C01.refuse_arith", "name": "mod_inv_var returns 0 for a non-invertible operand", "module": NT,
     "edit": lambda ctx: M.sub_expr(ctx, f"{NT}.mod_inv_var", lambda n: isinstance(n, ast.Raise), "return 0")},
    {"rule": "C01.sec_prefix", "name": "hybrid prefixes always accepted", "module": "btclib.curves.sec_point",
     "edit": lambda ctx: M.sub_expr(ctx, "btclib.curves.sec_point.point_from_octets", M.is_text("prefix == 0x04 or (hybrid and prefix in {0x06, 0x07})"), "prefix in {0x04, 0x06, 0x07}")},
]
