"""C19 -- hostile input is refused with library exceptions only; predicates are total.

Decided as an *effect* property over the sources a static table can list:
explicit raises name library classes; calls of builtins that raise on hostile
operands are handled or reviewed; boolean verifiers catch everything their
bodies may raise (explicit-raise closure over the call graph); JSON boundary
helpers wrap every from_dict; counts read from the wire are bounded before
they drive a loop; recursion reachable from parsers is bounded.
Not decided: implicit exceptions outside those tables; algorithmic hangs.
"""

from __future__ import annotations

import ast

from sa import mutate as M
from sa import pattern as PT
from sa.ctx import Ctx
from sa.effects import Raises
from sa.loader import AnalysisError, FuncInfo, call_name, norm, own_nodes, parent
from sa.report import Report
from rules.C04 import _local_handlers

NOTES = ("C19: decides class of every explicit raise, handling of listed throwing builtins, totality of boolean "
         "verifiers against the explicit-raise closure of their bodies, JSON boundary wrapping, bounded wire counts and "
         "bounded recursion; implicit exceptions of unlisted builtins and algorithmic complexity are not decided.")
ASSUMPTIONS = ["may-raise summaries contain explicit `raise` statements of resolved btclib callees (depth 6); calls on "
               "receivers that do not resolve contribute only when at most three classes define the method name"]

RAISE_ALLOW = {
    "btclib.__getattr__": "module __getattr__ protocol requires AttributeError",
    "btclib.p2p.__getattr__": "module __getattr__ protocol requires AttributeError",
    "btclib.script.__getattr__": "module __getattr__ protocol requires AttributeError",
}


def rule_raise_classes(ctx: Ctx, rep: Report) -> None:
    """C19.raise_classes: every explicit raise names a library class (or re-raises)."""
    rule = "C19.raise_classes"
    lib = {q for q, ci in ctx.prog.classes.items() if ci.module.name == "btclib.exceptions"}
    R = Raises(ctx)
    counts: dict[str, int] = {}
    bad = 0
    for fi in sorted(ctx.prog.functions.values(), key=lambda f: f.qualname):
        for n in own_nodes(fi.node):
            if not isinstance(n, ast.Raise):
                continue
            if n.exc is None:
                counts["re-raise"] = counts.get("re-raise", 0) + 1
                continue
            e = n.exc.func if isinstance(n.exc, ast.Call) else n.exc
            tgt = ctx.prog.resolve_name(fi.module, e, fi) or norm(e)
            ok = False
            kind = tgt
            if tgt in lib or (tgt in ctx.prog.classes and R.is_subclass(tgt, "btclib.exceptions.BTClibException")):
                ok, kind = True, "library class"
            elif tgt in ctx.prog.functions:
                r = ctx.prog.functions[tgt].node.returns
                rt = ctx.prog.resolve_name(ctx.prog.functions[tgt].module, r, ctx.prog.functions[tgt]) if r is not None else None
                ok = rt in lib
                kind = "factory -> library class" if ok else f"factory returning {rt}"
            elif isinstance(n.exc, ast.Name) and _is_caught_name(n.exc):
                ok, kind = True, "re-raise of the caught exception"
            elif fi.qualname in RAISE_ALLOW and tgt == "AttributeError":
                ok, kind = True, "allow-listed"
            counts[kind] = counts.get(kind, 0) + 1
            if not ok:
                bad += 1
                rep.ob(rule, f"{fi.qualname}:{norm(e)}", False, fi.where(n), f"raises {tgt}, not a class of btclib.exceptions")
    rep.ob(rule, "all_raise_sites", bad == 0, "btclib/", f"raise sites by kind: {counts}")
    n_total = sum(counts.values())
    if n_total < 1000:
        raise AnalysisError(f"only {n_total} raise sites found")
    # synthetic control for the zero-expected rule
    probe = ast.parse("def f():\n    raise ValueError('x')").body[0]
    hit = any(isinstance(x, ast.Raise) and norm(x.exc.func) == "ValueError" for x in ast.walk(probe))
    rep.control(rule, "synthetic `raise ValueError` is recognised", hit)


def _is_caught_name(name: ast.Name) -> bool:
    p = parent(name)
    while p is not None:
        if isinstance(p, ast.ExceptHandler) and p.name == name.id:
            return True
        p = parent(p)
    return False


# ---------------------------------------------------------------------------
THROWER_SAFE = {
    # site key -> reason (read one by one)
    "btclib.fee.FeeRate.sats_per_vbyte:Decimal": "argument is an f-string of two integers the function just computed",
    "btclib.b32._address_from_witness:decode": "decodes what bech32.encode just built from its own ascii alphabet",
    "btclib.p2p.message._command_from_bytes:decode": ("precheck", "_FIRST_PRINTABLE"),
    "btclib.bech32.encode:encode": "encoder, not a parser/decoder; the data part is the bech32 alphabet",
    "btclib.mnemonic.electrum.old_master_prv_key_from_mnemonic:encode": "hex digits produced by the function's own formatting",
    # a command of script.parse(): a hex string for a push -- or ERROR_COMMAND ("[error]") for a truncated one, which is no hex
    "btclib.script.sig_hash.redeem_script:fromhex": ("precheck", "ERROR_COMMAND"),
    "btclib.script.taproot._output_pubkey_and_internal_key:fromhex": "literal NUMS constant",
    "btclib.block.block_header.BlockHeader.parse:fromtimestamp": "the operand is four unsigned bytes of the header: 0 .. 2106-02-07, always a date",
    "btclib.mnemonic.electrum._search_mnemonic:int2": "a string of 0/1 the library just formatted",
    "btclib.mnemonic.electrum.mnemonic_from_entropy:int2": "a string of 0/1 the library just formatted",
    "btclib.mnemonic.electrum.old_mnemonic_from_hex_seed:int2": ("handler-or-precheck", "hex"),
    "btclib.mnemonic.slip39.share_from_mnemonic:int2": "slices of a bit string built from word indexes by format(i, '010b')",
}


def _thrower_kind(ctx: Ctx, fi: FuncInfo, call: ast.Call) -> str | None:
    f = call.func
    nm = call_name(call)
    full = norm(f)
    tgt = ctx.resolve_call(fi, call) or ""
    in_pkg = tgt.startswith("btclib.")
    # a method on an imported btclib object / bindings module is not the builtin
    root = f
    while isinstance(root, ast.Attribute):
        root = root.value
    if isinstance(root, ast.Name) and root.id in fi.module.imports and fi.module.imports[root.id].startswith("btclib"):
        return None
    if full == "bytes.fromhex" or (nm == "fromhex" and isinstance(f, ast.Attribute)):
        return "fromhex"
    if nm in ("decode", "encode") and isinstance(f, ast.Attribute) and not in_pkg:
        errs = list(call.args[1:2]) + [k.value for k in call.keywords if k.arg == "errors"]
        if any(isinstance(e, ast.Constant) and e.value in ("replace", "ignore", "backslashreplace", "surrogateescape", "xmlcharrefreplace", "namereplace") for e in errs):
            return None  # a lenient codec does not raise
    if nm == "decode" and isinstance(f, ast.Attribute) and not in_pkg and (call.args or call.keywords or isinstance(f.value, (ast.Call, ast.Name, ast.Subscript))):
        if not call.args and not call.keywords and isinstance(f.value, ast.Name):
            return None  # obj.decode(): a btclib decoder object
        return "decode"
    if nm == "encode" and isinstance(f, ast.Attribute) and call.args and not in_pkg:
        return "encode"
    if nm in ("b64decode", "a2b_base64", "unhexlify", "a2b_hex", "b32decode", "b16decode", "b85decode") and not in_pkg:
        return "b64"
    if full in ("json.loads", "json.load"):
        return "json"
    if nm in ("fromtimestamp", "utcfromtimestamp") and not in_pkg:
        # year 0 / year 10000 are a ValueError (an OverflowError / OSError past the platform's time_t)
        return "fromtimestamp"
    if nm == "Decimal" and not in_pkg:
        # Decimal(text) raises InvalidOperation on hostile text; Decimal(<int field>) / Decimal(<int literal>) cannot
        a0 = call.args[0] if call.args else None
        texty = a0 is None or isinstance(a0, ast.JoinedStr) or (isinstance(a0, ast.Call) and call_name(a0) in ("str", "format", "repr")) \
            or (isinstance(a0, ast.Name) and a0.id in fi.params()) or (isinstance(a0, ast.Constant) and isinstance(a0.value, str)) \
            or (isinstance(a0, ast.Name) and a0.id not in fi.params())
        if not texty:
            return None
        return "Decimal"
    if full in ("struct.unpack", "struct.unpack_from"):
        return "struct"
    if full == "int" and len(call.args) == 2:
        return "int2"
    if full == "float" and call.args and not isinstance(call.args[0], ast.Constant):
        return "float"
    return None


NEEDS = {
    "fromhex": {"ValueError"}, "decode": {"ValueError", "UnicodeError", "UnicodeDecodeError"}, "encode": {"ValueError", "UnicodeError", "UnicodeEncodeError"},
    # b64decode of a non-ascii *str* raises a plain ValueError, not binascii.Error: only ValueError covers both
    "b64": {"ValueError"}, "json": {"ValueError", "json.JSONDecodeError", "JSONDecodeError"},
    "Decimal": {"ArithmeticError", "InvalidOperation", "decimal.InvalidOperation"}, "struct": {"struct.error", "error"},
    "int2": {"ValueError"}, "float": {"ValueError"}, "fromtimestamp": {"ValueError"},
}
CATCH_ALL = {"Exception", "BaseException"}


def rule_throwers(ctx: Ctx, rep: Report) -> None:
    """C19.throwers: a builtin that raises on a hostile operand is called
    inside a handler for its exception class, on a literal, on what the
    library just encoded, or is a reviewed site."""
    rule = "C19.throwers"
    seen = set()
    for fi in sorted(ctx.prog.functions.values(), key=lambda f: f.qualname):
        if fi.module.name.startswith(("btclib.hwi",)):
            continue
        for call in sorted((n for n in own_nodes(fi.node) if isinstance(n, ast.Call)), key=lambda c: (c.lineno, c.col_offset)):
            k = _thrower_kind(ctx, fi, call)
            if k is None:
                continue
            key = f"{fi.qualname}:{k}"
            hs = _local_handlers(call)
            if hs & (NEEDS[k] | CATCH_ALL):
                rep.ob(rule, key, True, fi.where(call), f"handled by {sorted(hs)}")
                continue
            if k not in ("decode", "encode") and call.args and all(isinstance(a, ast.Constant) for a in call.args):
                rep.ob(rule, key, True, fi.where(call), "literal operand")
                continue
            if k == "decode" and isinstance(call.func.value, ast.Call) and "encode" in call_name(call.func.value):
                rep.ob(rule, key, True, fi.where(call), f"decodes what {call_name(call.func.value)} just encoded")
                continue
            seen.add(key)
            safe = THROWER_SAFE.get(key)
            if isinstance(safe, tuple):
                needle = safe[1]
                ok = any(pol and needle in norm(t) for t, pol, _ in ctx.refusals(fi)) or needle in {h for h in hs}
                if safe[0] == "handler-or-precheck":
                    ok = ok or any(needle in norm(t) for t, _, _ in ctx.refusals(fi)) or bool(_enclosing_try(call))
                rep.ob(rule, key, ok, fi.where(call), f"operand validated beforehand by a refusal on `{needle}`" if ok else
                       f"the refusal on `{needle}` that made this call safe is gone")
            elif safe is not None:
                rep.ob(rule, key, True, fi.where(call), f"reviewed: {safe}")
            else:
                rep.ob(rule, key, False, fi.where(call),
                       f"{norm(call)[:60]} can raise {sorted(NEEDS[k])[0]} on a hostile operand and nothing here converts it")
    for key in sorted(set(THROWER_SAFE) - seen):
        rep.unknown(rule, key, "", "stale table row")
    rep.floor(rule, 40)


def _enclosing_try(n: ast.AST):
    p = parent(n)
    while p is not None and not isinstance(p, ast.FunctionDef):
        if isinstance(p, ast.Try):
            return p
        p = parent(p)
    return None


# ---------------------------------------------------------------------------
BOOL_RAISING_OK = {
    "btclib.b32.is_segwit_prefixed": "refuses a non-string operand's content (str_from_string); not one of the verifiers the property names",
    "btclib.block.proof_of_work.is_negative_bits": "refuses bits that are not 4 octets: a malformed operand, documented",
    "btclib.curves.curve_group.CurveGroup.is_on_curve": "refuses a malformed point (wrong arity / y out of range) by documented design",
    "btclib.ecc.musig2.partial_sig_verify": "documented to raise for unparseable contributions (BIP327 InvalidContributionError)",
    "btclib.ecc.musig2.partial_sig_verify_": "documented to raise for unparseable contributions (BIP327 InvalidContributionError)",
    "btclib.psbt.musig2.partial_sig_verify": "documented to raise for unparseable contributions (BIP327 InvalidContributionError)",
    "btclib.psbt_signer.SoftwareSigner.is_watch_only": "property over the signer's own validated keys",
}


def _bool_functions(ctx: Ctx):
    for fi in sorted(ctx.prog.functions.values(), key=lambda f: f.qualname):
        r = fi.node.returns
        if r is None or norm(r) != "bool" or fi.name.startswith("_"):
            continue
        if fi.module.name.startswith(("btclib.hwi", "btclib.fetch")):
            continue
        if fi.name.startswith(("verify", "batch_verify", "is_")) or "verify" in fi.name:
            yield fi


def rule_bool_total(ctx: Ctx, rep: Report) -> None:
    """C19.bool_total: a public boolean verifier lets no library exception
    out except a type error (explicit-raise closure of its body vs its handlers)."""
    rule = "C19.bool_total"
    R = Raises(ctx)
    for fi in _bool_functions(ctx):
        esc = {x for x in R.of(fi) if not R.is_subclass(x, "TypeError")}
        short = sorted(x.replace("btclib.exceptions.", "") for x in esc)
        if esc and fi.qualname in BOOL_RAISING_OK:
            rep.ob(rule, fi.qualname, True, fi.where(), f"reviewed: may raise {short}: {BOOL_RAISING_OK[fi.qualname]}")
            continue
        rep.ob(rule, fi.qualname, not esc, fi.where(),
               "answers True/False: nothing but a type error can leave" if not esc else
               f"may raise {short} instead of answering False")
    rep.floor(rule, 50)
    # the wrapper helper behind the nine script predicates
    h = ctx.func("btclib.script.script_pub_key._is_funct")
    tr = [n for n in own_nodes(h.node) if isinstance(n, ast.Try)]
    names = set()
    for t in tr:
        for hd in t.handlers:
            for e in ((hd.type.elts if isinstance(hd.type, ast.Tuple) else [hd.type]) if hd.type is not None else []):
                names.add(norm(e))
    # every assert_* function handed to _is_funct: its closure must be caught
    for cf, call in ctx.callers("btclib.script.script_pub_key._is_funct"):
        if not call.args:
            continue
        tgt = ctx.prog.resolve_name(cf.module, call.args[0], cf)
        af = ctx.prog.functions.get(tgt or "")
        if af is None:
            continue
        esc = {x for x in R.of(af) if not R.is_subclass(x, "TypeError") and not any(R.is_subclass(x, ctx.prog.resolve_name(h.module, ast.parse(nm, mode='eval').body, h) or nm) for nm in names)}
        rep.ob(rule, f"{cf.qualname}->{af.name}", not esc, cf.where(call),
               f"_is_funct catches {sorted(names)}: covers everything {af.name} may raise" if not esc else
               f"{af.name} may raise {sorted(x.replace('btclib.exceptions.', '') for x in esc)}, which `except {sorted(names)}` does not catch")


# ---------------------------------------------------------------------------
def rule_json_boundary(ctx: Ctx, rep: Report) -> None:
    """C19.json_boundary: a function that indexes a parameter by string keys
    (a JSON object) wraps it with fields_from_json_object before the first
    subscript, and wraps every list of it that it iterates."""
    rule = "C19.json_boundary"
    for fi in sorted(ctx.prog.functions.values(), key=lambda f: f.qualname):
        if fi.module.name.startswith(("btclib.hwi", "btclib.fetch")):
            continue
        ps = set(fi.params())
        by_param: dict[str, list[ast.AST]] = {}
        for n in own_nodes(fi.node):
            if isinstance(n, ast.Subscript) and isinstance(n.ctx, ast.Load) and isinstance(n.value, ast.Name) and n.value.id in ps \
                    and isinstance(n.slice, ast.Constant) and isinstance(n.slice.value, str):
                by_param.setdefault(n.value.id, []).append(n)
            if isinstance(n, ast.Call) and isinstance(n.func, ast.Attribute) and n.func.attr in ("get", "pop") and isinstance(n.func.value, ast.Name) \
                    and n.func.value.id in ps and n.args and isinstance(n.args[0], ast.Constant) and isinstance(n.args[0].value, str) and n.func.value.id in by_param:
                by_param[n.func.value.id].append(n)
        for p, subs in sorted(by_param.items()):
            g = ctx.cfg(fi)
            wraps = [c for c in ctx.calls_to(fi, "btclib.utils.fields_from_json_object") if c.args and norm(c.args[0]) == p]
            through = [i for c in wraps for i in g.nodes_containing(c)]
            targets = [i for s_ in subs for i in g.nodes_containing(s_) if i not in through]
            ok = bool(wraps) and (not targets or g.path_avoiding(targets, through) is None)
            rebound = any(isinstance(parent(c), ast.Assign) and norm(parent(c).targets[0]) == p for c in wraps)
            rep.ob(rule, f"{fi.qualname}({p})", ok and rebound, fi.where(),
                   f"{p} = fields_from_json_object({p}, ...) dominates every subscript" if ok and rebound else
                   f"`{p}[...]` with a string key on the raw argument: a non-dict or a missing key leaves as TypeError/KeyError")
            # comprehension / loop over a value of the dict goes through list_from_json_array
            for n in own_nodes(fi.node):
                it = None
                if isinstance(n, ast.comprehension):
                    it = n.iter
                elif isinstance(n, ast.For):
                    it = n.iter
                if it is None:
                    continue
                uses = any(isinstance(x, ast.Subscript) and norm(x.value) == p for x in ast.walk(it))
                if uses:
                    okl = isinstance(it, ast.Call) and call_name(it) == "list_from_json_array"
                    rep.ob(rule, f"{fi.qualname}:iter:{norm(it)[:40]}", okl, fi.where(it),
                           "iterates list_from_json_array(...)" if okl else "iterates a raw JSON value")
    rep.floor(rule, 12)
    # the helper itself refuses a non-mapping and turns a missing key into a library error
    for q in ("btclib.utils.fields_from_json_object", "btclib.utils.list_from_json_array"):
        fi = ctx.func(q)
        refs = ctx.refusals(fi)
        at = ctx.calls_to(fi, "btclib.utils.assert_type")
        rep.ob(rule, q, bool(refs) or bool(at), fi.where(), f"{len(refs)} refusals, {len(at)} assert_type calls")


# ---------------------------------------------------------------------------
COUNT_SAFE = {
    # function -> reason a count needs no explicit bound there
}


def rule_bounded_alloc(ctx: Ctx, rep: Report) -> None:
    """C19.bounded_alloc: a count read from the wire bounds itself (var_int's
    max_size, MAX_SIZE by default) and every element read is a checked read,
    so a loop it drives ends at the first missing byte; counts that pre-size a
    structure are compared with a limit first."""
    rule = "C19.bounded_alloc"
    vi = ctx.func("btclib.var_int.parse")
    d = vi.node.args.defaults
    okd = bool(d) and norm(d[-1]) == "MAX_SIZE"
    ms = ctx.const("btclib.var_int", "MAX_SIZE")
    rep.ob(rule, "var_int.parse:default_cap", okd and isinstance(ms, int) and ms <= 0x02000000, vi.where(), f"max_size defaults to MAX_SIZE={ms!r}")
    for fi in sorted(ctx.prog.functions.values(), key=lambda f: f.qualname):
        counts = {}
        for c in ctx.calls_to(fi, "btclib.var_int.parse"):
            par = parent(c)
            if isinstance(par, ast.Assign) and len(par.targets) == 1 and isinstance(par.targets[0], ast.Name):
                counts[par.targets[0].id] = c
        if not counts:
            continue
        g = ctx.cfg(fi)
        for n in own_nodes(fi.node):
            it = None
            body: list[ast.AST] = []
            if isinstance(n, ast.For):
                it, body = n.iter, n.body
            elif isinstance(n, (ast.ListComp, ast.SetComp, ast.GeneratorExp, ast.DictComp)):
                it = n.generators[0].iter
                body = [n.elt] if hasattr(n, "elt") else [n.key, n.value]
            if not (isinstance(it, ast.Call) and norm(it.func) == "range" and it.args):
                continue
            names = {x.id for a in it.args for x in ast.walk(a) if isinstance(x, ast.Name)}
            var = next((v for v in counts if v in names), None)
            if var is None:
                continue
            key = f"{fi.qualname}:range({var})"
            # each iteration performs a checked read (so a lying count stops at the first missing byte)
            reads = [c for b in body for c in ast.walk(b) if isinstance(c, ast.Call) and call_name(c) in ("parse", "read_exactly", "_parse_number", "var_bytes_parse")]
            raw = [c for b in body for c in ast.walk(b) if isinstance(c, ast.Call) and call_name(c) == "read" and isinstance(c.func, ast.Attribute) and c.args]
            explicit = any(pol and var in {x.id for x in ast.walk(t) if isinstance(x, ast.Name)} for t, pol, _ in ctx.refusals(fi))
            capped = len(counts[var].args) >= 2 or any(k.arg == "max_size" for k in counts[var].keywords)
            ok = bool(reads) or explicit or capped
            if raw and not reads:
                ok = explicit  # raw reads return b'' forever: the count must be bounded by a refusal
            rep.ob(rule, key, ok, fi.where(n),
                   "each iteration is a checked read" if reads else "count refused above a limit" if explicit else
                   "count capped by max_size" if capped else "a wire count drives a loop of unchecked reads: 9 bytes ask for 2^25 iterations of nothing")
    rep.floor(rule, 15)


# ---------------------------------------------------------------------------
RECURSION_OK = {
    # directly or mutually recursive functions, each read: why the depth is bounded
}


def rule_recursion(ctx: Ctx, rep: Report) -> None:
    """C19.recursion: a recursive function reachable from a parser/decoder has
    a depth refusal or recurses on a strictly smaller, already-parsed object."""
    rule = "C19.recursion"
    # direct recursion
    n = 0
    for fi in sorted(ctx.prog.functions.values(), key=lambda f: f.qualname):
        rec = [c for c, tgt in ctx.callees(fi) if tgt == fi.qualname]
        if not rec:
            continue
        n += 1
        refs = ctx.refusals(fi)
        depth_guard = any(any(w in norm(t).lower() for w in ("depth", "level", "max_")) for t, pol, _ in refs)
        # recursion on a narrowed type: the recursive call's first argument differs from the parameter
        params = fi.params()
        narrowed = all(c.args and norm(c.args[0]) not in params[:1] for c in rec) if params else False
        ok = depth_guard or narrowed or fi.qualname in RECURSION_OK
        rep.ob(rule, fi.qualname, ok, fi.where(),
               "depth refusal present" if depth_guard else "recurses on a derived (smaller / converted) argument" if narrowed else
               RECURSION_OK.get(fi.qualname, "unbounded self-recursion on its own parameter"))
        # a depth parameter with a refusal on it must grow on every recursive call
        for pname in ("depth", "level"):
            if pname in params and any(pname in norm(t) for t, pol, _ in refs):
                idx = params.index(pname)
                for c in rec:
                    arg = c.args[idx] if len(c.args) > idx else next((k.value for k in c.keywords if k.arg == pname), None)
                    grows = isinstance(arg, ast.BinOp) and isinstance(arg.op, ast.Add) and norm(arg.left) == pname and isinstance(ctx.fold(arg.right, fi.module), int) and ctx.fold(arg.right, fi.module) >= 1
                    rep.ob(rule, f"{fi.qualname}:{pname}_grows@{_nth_call(rec, c)}", grows, fi.where(c),
                           f"recursive call passes {norm(arg) if arg is not None else None}" + ("" if grows else f": the {pname} bound is never reached along this branch (RecursionError on hostile nesting)"))
    if n < 10:
        raise AnalysisError(f"only {n} recursive functions found")
    # the two parsers the property names are iterative
    for q in ("btclib.descriptors.miniscript.parse", "btclib.descriptors.miniscript._tree_eval"):
        if ctx.prog.has_func(q):
            fi = ctx.func(q)
            cyc = ctx.reaches(q, lambda t: t == q, depth=4)
            rep.ob(rule, f"{q}:iterative", cyc is None, fi.where(), "no call-graph cycle through it" if cyc is None else f"cycle {cyc}")


def _nth_call(calls, c) -> int:
    return sorted(calls, key=lambda x: (x.lineno, x.col_offset)).index(c)


# integer arguments that end in a fixed-width to_bytes: every call site hands over a range-checked value
TO_BYTES_SINKS = {
    # callee -> (positions of the int arguments, accepted validators of a Name argument)
    "btclib.ecc.ssa.challenge_": ((1, 2), {"_x_only_bytes", "_y_even_var", "_is_x_coordinate_var", "bip340_nonce_"}),
}


def rule_to_bytes_range(ctx: Ctx, rep: Report, rule: str = "C19.to_bytes_range", only_module: str | None = None, floor: int = 6) -> None:
    """C19.to_bytes_range: an integer that a callee writes with a fixed-width
    to_bytes is range-checked at every call site (else OverflowError, not an answer)."""
    for callee, (positions, validators) in TO_BYTES_SINKS.items():
        for fi, call in sorted(ctx.callers(callee), key=lambda x: (x[0].qualname, x[1].lineno)):
            if only_module is not None and fi.module.name != only_module:
                continue
            g = ctx.cfg(fi)
            for pos in positions:
                if len(call.args) <= pos:
                    continue
                a = call.args[pos]
                key = f"{fi.qualname}:{callee.rsplit('.', 1)[1]}#{pos}:{norm(a)}"
                if isinstance(a, ast.Attribute) and a.attr in ("r",):
                    rep.ob(rule, key, True, fi.where(call), "the r of a signature validated before use (C03.normalise)")
                    continue
                if isinstance(a, ast.Subscript) and isinstance(ctx.fold(a.slice, fi.module), int):
                    rep.ob(rule, key, True, fi.where(call), "a coordinate of a point")
                    continue
                if isinstance(a, ast.Name):
                    vs = [c for c in own_nodes(fi.node) if isinstance(c, ast.Call) and call_name(c) in validators and any(isinstance(x, ast.Name) and x.id == a.id for arg in c.args for x in ast.walk(arg)) and ctx.unconditional(g, c)]
                    defs = [n for n in own_nodes(fi.node) if isinstance(n, ast.Assign) and any(a.id in {x.id for x in ast.walk(t) if isinstance(x, ast.Name)} for t in n.targets) and isinstance(n.value, ast.Call) and call_name(n.value) in validators]
                    through = [i for c in vs for i in g.nodes_containing(c)] + [i for d in defs for i in g.nodes_containing(d.value)]
                    ok = bool(through) and g.path_avoiding(g.nodes_containing(call), through) is None
                    rep.ob(rule, key, ok, fi.where(call), f"range-checked by {sorted({call_name(c) for c in vs} | {call_name(d.value) for d in defs})} before the call" if ok else
                           f"`{a.id}` reaches a fixed-width to_bytes without a range check: an out-of-range integer is an OverflowError, not False")
                    continue
                rep.unknown(rule, key, fi.where(call), "argument shape not recognised")
    rep.floor(rule, floor)


def rule_sized_int_siblings(ctx: Ctx, rep: Report) -> None:
    """C19.sized_int_siblings: a PSBT integer field is written and read with the
    same width and the same signedness: `serialize_sized_int(TYPE, v, n,
    signed=s)` and the `deserialize_sized_int(k, v, what, n, signed=s)` in the
    arm of TYPE agree. Read unsigned what is written signed, and a value with
    its high bit set is an object the parser accepts (check_validity=False)
    that `serialize`, `TxOut` and the size and id functions leave through an
    OverflowError."""
    rule = "C19.sized_int_siblings"
    n = 0
    for modname in ("btclib.psbt.psbt_out", "btclib.psbt.psbt_in", "btclib.psbt.psbt"):
        mi = ctx.module(modname)
        writes: dict[str, tuple] = {}
        reads: dict[str, tuple] = {}
        for fi in mi.functions.values():
            for c in own_nodes(fi.node):
                if not isinstance(c, ast.Call):
                    continue
                if call_name(c) == "serialize_sized_int" and len(c.args) >= 3 and isinstance(c.args[0], ast.Name):
                    sg = next((ctx.fold(k.value, mi) for k in c.keywords if k.arg == "signed"), False)
                    writes[c.args[0].id] = (ctx.fold(c.args[2], mi), sg, fi, c)
                if call_name(c) == "deserialize_sized_int" and len(c.args) >= 4:
                    # the type constant of the arm: the nearest enclosing `if <k[:1] / type_> == CONST`
                    const = None
                    for a in _anc_nodes(c):
                        if isinstance(a, ast.If):
                            names = [x.id for x in ast.walk(a.test) if isinstance(x, ast.Name) and x.id.isupper()]
                            if names:
                                const = names[0]
                                break
                    if const:
                        sg = next((ctx.fold(k.value, mi) for k in c.keywords if k.arg == "signed"), False)
                        reads[const] = (ctx.fold(c.args[3], mi), sg, fi, c)
        for const in sorted(set(writes) & set(reads)):
            n += 1
            w, r = writes[const], reads[const]
            ok = (w[0], bool(w[1])) == (r[0], bool(r[1]))
            rep.ob(rule, f"{modname}:{const}", ok, r[2].where(r[3]), f"{w[0]} bytes, signed={bool(w[1])} both ways" if ok else
                   f"{const} is written as {w[0]} bytes signed={bool(w[1])} and read as {r[0]} bytes signed={bool(r[1])}: a value with the high bit set parses into an integer the writer cannot write (OverflowError)")
    rep.floor(rule, 1)


def _anc_nodes(n: ast.AST):
    n = parent(n)
    while n is not None:
        yield n
        n = parent(n)


def rule_no_overread(ctx: Ctx, rep: Report) -> None:
    """C19.no_overread: "reads no more than it needs from a caller's stream": the
    trailing-octet probe of the lenient DER parser (`stream.read(1)` after the
    sequence) is made only under `strict` -- unconditionally, a lenient parse
    of a stream swallows the octet after the signature (the sighash byte, the
    next record)."""
    rule = "C19.no_overread"
    fi = ctx.func("btclib.ecc.dsa.Sig.parse")
    g = ctx.cfg(fi)
    stream_names = {norm(a.targets[0]) for a in own_nodes(fi.node) if isinstance(a, ast.Assign) and isinstance(a.value, ast.Call) and call_name(a.value) == "bytesio_from_binarydata"}
    reads = [c for c in own_nodes(fi.node) if isinstance(c, ast.Call) and call_name(c) == "read" and isinstance(c.func, ast.Attribute) and norm(c.func.value) in stream_names
             and c.args and ctx.fold(c.args[0], fi.module) == 1]
    if len(reads) < 2:
        rep.unknown(rule, "Sig.parse", fi.where(), "the marker read and the trailing probe are not both found")
        return
    last = max(reads, key=lambda c: (c.lineno, c.col_offset))
    ok = PT.fact(g.facts_at_ast(last), "strict")
    rep.ob(rule, "Sig.parse:trailing_probe_under_strict", ok, fi.where(last), "the octet after the sequence is read only when strict" if ok else
           "the parser reads one octet past the DER sequence whether or not it is strict: a lenient parse moves the caller's stream past data that is not the signature's")


def rule_quantize_bounded(ctx: Ctx, rep: Report) -> None:
    """C19.quantize_bounded: `Decimal.quantize` raises decimal.InvalidOperation (an
    ArithmeticError, not a library class) when the result needs more digits than
    the context has: in valid_btc_amount it runs only on an amount the range
    refusal has already held to 0..21e6, whose eight-decimal form always fits."""
    rule = "C19.quantize_bounded"
    fi = ctx.func("btclib.amount.valid_btc_amount")
    g = ctx.cfg(fi)
    q = [c for c in own_nodes(fi.node) if isinstance(c, ast.Call) and call_name(c) in ("quantize", "normalize")]
    from sa.ranges import refusal_constraints as _rc
    cs = _rc(ctx, fi)
    rng = [c_ for c_ in cs if c_.op == ">" and "_MAX_BITCOIN" in str(c_.value_text) and not c_.from_fact]
    if not q or not rng:
        rep.ob(rule, "valid_btc_amount", bool(rng), fi.where(), "range refusal present" if rng else "no refusal of an amount above the cap")
        return
    ids = [c_.test_id for c_ in rng if c_.test_id >= 0]
    bad = [c for c in q if g.path_avoiding(g.nodes_containing(c), ids) is not None]
    rep.ob(rule, "valid_btc_amount:quantize_after_range", not bad, fi.where(bad[0] if bad else q[0]), "quantize runs on an amount already held to the money range" if not bad else
           f"`{norm(bad[0])[:40]}` runs before the range refusal: a finite amount wider than the context (1e22, forty nines) raises decimal.InvalidOperation out of every JSON and URI decoder that reads an amount")


def rule_first_transaction(ctx: Ctx, rep: Report) -> None:
    """C19.first_transaction: a block the parser accepted (check_validity=False)
    may hold no transaction: every read of `self.transactions[0]` in the block
    module is behind a test of the list, or behind `_assert_coinbase()`, which
    refuses the empty block with a library exception -- never a bare
    IndexError out of a property or a consumer."""
    rule = "C19.first_transaction"
    mi = ctx.module("btclib.block.block")
    n = 0
    for fi in sorted(mi.functions.values(), key=lambda f: f.qualname):
        subs = [x for x in own_nodes(fi.node) if isinstance(x, ast.Subscript) and str(norm(x.value)) == "self.transactions" and isinstance(x.ctx, ast.Load)
                and not isinstance(x.slice, ast.Slice) and isinstance(ctx.fold(x.slice, mi), int)]
        if not subs:
            continue
        g = ctx.cfg(fi)
        guards = [c for c in own_nodes(fi.node) if isinstance(c, ast.Call) and call_name(c) in ("_assert_coinbase", "assert_valid", "assert_valid_length") and ctx.unconditional(g, c)]
        gids = [i for c in guards for i in g.nodes_containing(c)]
        for x in subs:
            n += 1
            facts = g.facts_at_ast(x)
            # `self.is_segwit` is `any(... for tx in self.transactions)`: true only of a non-empty block
            tested = any("self.transactions" in str(t) for t, _ in facts) or any(str(t) == "self.is_segwit" and p_ for t, p_ in facts)
            dominated = bool(gids) and g.path_avoiding(g.nodes_containing(x), gids) is None
            rep.ob(rule, f"{fi.qualname}:{norm(x)}@{x.lineno - fi.node.lineno}", tested or dominated, fi.where(x),
                   "behind a test of the list" if tested else "behind _assert_coinbase()" if dominated else
                   "indexes the first transaction of a block that may hold none: IndexError for a block parsed with check_validity=False")
    rep.floor(rule, 4)


TEXT_ENCODE_OK = {
    ("btclib.mnemonic.slip39._round_function", "passphrase.encode()"): "both callers of _feistel run _assert_valid_passphrase first (printable ascii only)",
}


def rule_text_encode(ctx: Ctx, rep: Report) -> None:
    """C19.text_encode: `str.encode()` raises UnicodeEncodeError on a lone
    surrogate ("\\ud800"), which any caller-supplied str may hold. Where the
    text being encoded comes from a parameter, the call is under a handler that
    catches it (UnicodeError / ValueError), or behind an `isascii()` refusal."""
    from sa.canon import expand
    rule = "C19.text_encode"
    n = 0
    for q, fi in sorted(ctx.prog.functions.items()):
        params = set(fi.params()) - {"self", "cls"}
        for c in own_nodes(fi.node):
            if not (isinstance(c, ast.Call) and isinstance(c.func, ast.Attribute) and c.func.attr == "encode" and not c.args and not c.keywords):
                continue
            recv = ast.parse(str(expand(fi, c.func.value)), mode="eval")
            names = {x.id for x in ast.walk(recv) if isinstance(x, ast.Name)}
            if not (names & params):
                continue
            n += 1
            if (q, str(norm(c))) in TEXT_ENCODE_OK:
                rep.ob(rule, f"{q}:{norm(c)[:50]}", True, fi.where(c), f"reviewed: {TEXT_ENCODE_OK[(q, str(norm(c)))]}")
                continue
            hs = _handlers_around(c)
            g = ctx.cfg(fi)
            guarded = bool(hs & {"ValueError", "UnicodeError", "UnicodeEncodeError", "Exception", "BaseException"}) or \
                any("isascii()" in str(t) and p_ for t, p_ in g.facts_at_ast(c))
            rep.ob(rule, f"{q}:{norm(c)[:50]}", guarded, fi.where(c), "under a handler / behind an ascii test" if guarded else
                   f"`{norm(c)[:60]}` encodes caller-supplied text with no handler: a lone surrogate raises UnicodeEncodeError, which is not a library exception")
    rep.floor(rule, 5)


def _handlers_around(node: ast.AST) -> set[str]:
    out: set[str] = set()
    cur, p_ = node, parent(node)
    while p_ is not None and not isinstance(p_, (ast.FunctionDef, ast.AsyncFunctionDef)):
        if isinstance(p_, ast.Try) and any(cur is s_ for s_ in p_.body):
            for h in p_.handlers:
                ts = h.type.elts if isinstance(h.type, ast.Tuple) else [h.type] if h.type is not None else []
                out |= {str(norm(t)).split(".")[-1] for t in ts} or {"BaseException"}
        cur, p_ = p_, parent(p_)
    return out


def rule_loose_to_strict_(ctx: Ctx, rep: Report) -> None:
    """C19.loose_to_strict: a loose-typed parameter reaches a strict-typed helper only converted (see sigcommon.rule_loose_to_strict)."""
    from rules.sigcommon import rule_loose_to_strict
    rule_loose_to_strict(ctx, rep, "C19.loose_to_strict", ('btclib.',), 40)


def rule_coercion_used_(ctx: Ctx, rep: Report) -> None:
    """C19.coercion_used: a conversion of a parameter that is read again is kept (see sigcommon.rule_coercion_used)."""
    from rules.sigcommon import rule_coercion_used
    rule_coercion_used(ctx, rep, "C19.coercion_used", ('btclib.',))


def rule_empty_element_index(ctx: Ctx, rep: Report) -> None:
    """C19.empty_element_index: an element of a witness stack may be empty -- the
    parser accepts `00` as an element -- so `stack[i][j]`, which is an
    IndexError on an empty element, is written only where the element is known
    not to be empty: under a test of it (`if not stack[-1]: raise`, a length
    test), or after a validation of it (or of a local that is it) that refuses.
    The slice `stack[i][:1] == b"\x50"` is the form that needs no guard."""
    rule = "C19.empty_element_index"
    n = 0
    for q, fi in sorted(ctx.prog.functions.items()):
        if not q.startswith(("btclib.script.", "btclib.silent_payments", "btclib.psbt.", "btclib.bip322", "btclib.tx.")):
            continue
        sites = [x for x in own_nodes(fi.node) if isinstance(x, ast.Subscript) and isinstance(x.ctx, ast.Load) and isinstance(x.value, ast.Subscript) and isinstance(x.value.value, ast.Name)
                 and isinstance(ctx.fold(x.slice, fi.module), int) and not isinstance(x.slice, ast.Slice)
                 and isinstance(ctx.fold(x.value.slice, fi.module), int) and not isinstance(x.value.slice, ast.Slice)]
        if not sites:
            continue
        # only lists of byte strings: the outer name is iterated / sliced as a stack of elements (len(x[i]) or x[i][a:b] or x.pop appear) -- a tuple of ints is not
        g = ctx.cfg(fi)
        for x in sites:
            base = x.value.value.id
            elem = str(norm(x.value)).replace(" ", "")
            is_stack = any(isinstance(y, ast.Subscript) and isinstance(y.slice, ast.Slice) and isinstance(y.value, ast.Subscript) and isinstance(y.value.value, ast.Name) and y.value.value.id == base
                           for y in own_nodes(fi.node)) or any(isinstance(c, ast.Call) and isinstance(c.func, ast.Attribute) and c.func.attr in ("pop", "append") and isinstance(c.func.value, ast.Name) and c.func.value.id == base for c in own_nodes(fi.node)) \
                or "stack" in str(norm(ast.Name(id=base)))
            if not is_stack:
                continue
            n += 1
            aliases = {elem} | {a.targets[0].id for a in own_nodes(fi.node) if isinstance(a, ast.Assign) and isinstance(a.targets[0], ast.Name) and str(norm(a.value)).replace(" ", "") == elem}
            facts = [str(t).replace(" ", "") for t, pol in g.facts_at_ast(x)]
            guarded = any(any(al in t for al in aliases) for t in facts)
            if not guarded:
                for t, pol, node in ctx.refusals(fi):
                    tt = str(norm(t)).replace(" ", "")
                    if getattr(t, "lineno", 0) <= x.lineno and any(al in tt for al in aliases):
                        guarded = True
                        break
            rep.ob(rule, f"{q}:{elem}[{ctx.fold(x.slice, fi.module)}]", guarded, fi.where(x), f"`{norm(x)}` is read where `{elem}` was tested or validated" if guarded else
                   f"`{norm(x)}`: nothing on the way here says `{elem}` is not empty -- an empty witness element is an IndexError, outside the exception contract")
    rep.floor(rule, 2)


def rule_sticky_flags_(ctx: Ctx, rep: Report) -> None:
    """C19.sticky_flags: a flag raised inside a loop and read after it is accumulated, not overwritten (see sigcommon.rule_sticky_flags)."""
    from rules.sigcommon import rule_sticky_flags
    rule_sticky_flags(ctx, rep, "C19.sticky_flags", ('btclib.',))


def rule_nested_validated_(ctx: Ctx, rep: Report) -> None:
    """C19.nested_validated: assert_valid validates every nested wire object (see sigcommon.rule_nested_validated)."""
    from rules.sigcommon import rule_nested_validated
    rule_nested_validated(ctx, rep, "C19.nested_validated", ('btclib.',), 25)


def rule_lookahead_bounded(ctx: Ctx, rep: Report) -> None:
    """C19.lookahead_bounded: the miniscript decoder reads a script backwards through
    `self._op_code(k)` and `self.entries[self.pos + k]`, which index a list: a
    read k entries ahead (k >= 1) is made only where `self._remaining()` is
    known to exceed k -- a fact `_remaining() >= N` (or the failed test
    `_remaining() < N`) with N >= k + 1 on every path to it. One less and a
    script cut short by one entry leaves `from_script` as an IndexError."""
    import re as _re
    rule = "C19.lookahead_bounded"
    n = 0
    for q, fi in sorted(ctx.prog.functions.items()):
        if "._Decoder." not in q:
            continue
        g = None
        for x in own_nodes(fi.node):
            k = None
            if isinstance(x, ast.Call) and isinstance(x.func, ast.Attribute) and x.func.attr == "_op_code" and x.args:
                k = ctx.fold(x.args[0], fi.module)
            elif isinstance(x, ast.Subscript) and str(norm(x.value)) == "self.entries" and isinstance(x.slice, ast.BinOp) and isinstance(x.slice.op, ast.Add) and str(norm(x.slice.left)) == "self.pos":
                k = ctx.fold(x.slice.right, fi.module)
            if not isinstance(k, int) or k < 1:
                continue
            n += 1
            g = g or ctx.cfg(fi)
            best = 0
            for t, pol in g.facts_at_ast(x):
                try:
                    c = ast.parse(str(t), mode="eval").body
                except SyntaxError:
                    continue
                if not (isinstance(c, ast.Compare) and len(c.ops) == 1):
                    continue
                l, op, r = c.left, type(c.ops[0]), c.comparators[0]
                if str(norm(r)).replace(" ", "") == "self._remaining()":  # mirrored: N > remaining  ==  remaining < N
                    l, r = r, l
                    op = {ast.Lt: ast.Gt, ast.Gt: ast.Lt, ast.LtE: ast.GtE, ast.GtE: ast.LtE}.get(op, op)
                if str(norm(l)).replace(" ", "") != "self._remaining()":
                    continue
                # N, or N + <something non-negative> (a count read from the script): the constant part is a lower bound
                N = ctx.fold(r, fi.module)
                if not isinstance(N, int) and isinstance(r, ast.BinOp) and isinstance(r.op, ast.Add):
                    N = ctx.fold(r.left, fi.module) if isinstance(ctx.fold(r.left, fi.module), int) else ctx.fold(r.right, fi.module)
                if not isinstance(N, int):
                    continue
                if (op is ast.GtE and pol) or (op is ast.Lt and not pol):
                    best = max(best, N)
                elif (op is ast.Gt and pol) or (op is ast.LtE and not pol):
                    best = max(best, N + 1)
            rep.ob(rule, f"{q}:{norm(x)}", best >= k + 1, fi.where(x), f"read under _remaining() >= {best}" if best >= k + 1 else
                   f"`{norm(x)}` reads {k} entries ahead where only _remaining() >= {best} is known: a script one entry short is an IndexError out of from_script")
    rep.floor(rule, 10)


def rule_positions_checked_before_use(ctx: Ctx, rep: Report) -> None:
    """C19.positions_checked_before_use: `reconstruct` places each prefilled
    transaction at the position the message states, in a list sized by the
    message's own count: the positions are the peer's, and are held to the
    list (`_assert_positions`, or `assert_valid`) before the first store -- a
    message parsed with check_validity=False and a position past the end is an
    IndexError otherwise."""
    rule = "C19.positions_checked_before_use"
    fi = ctx.func("btclib.p2p.compact_blocks.reconstruct")
    g = ctx.cfg(fi)
    stores = [s_ for s_ in own_nodes(fi.node) if isinstance(s_, ast.Assign) and isinstance(s_.targets[0], ast.Subscript) and isinstance(s_.targets[0].slice, ast.Attribute)]
    checks = [c for c in own_nodes(fi.node) if isinstance(c, ast.Call) and (call_name(c) in ("_assert_positions",) or (isinstance(c.func, ast.Attribute) and c.func.attr == "assert_valid"))]
    ids = [i for c in checks for i in g.nodes_containing(c)]
    if not stores:
        rep.unknown(rule, "reconstruct", fi.where(), "no positional store found")
        return
    for s_ in stores:
        path = g.path_avoiding(g.nodes_containing(s_), ids) if ids else ["entry"]
        rep.ob(rule, f"reconstruct:{norm(s_.targets[0])}", path is None, fi.where(s_), "stored past the position check" if path is None else
               f"`{norm(s_)[:60]}` stores at a position the peer stated and nothing checked: IndexError for a position past the block's count")
    rep.floor(rule, 1)


def rule_decoders_check_shapes(ctx: Ctx, rep: Report) -> None:
    """C19.decoders_check_shapes: the psbt classes read their json through the
    `decode_...` helpers of psbt_utils, which are handed whatever `from_dict`
    found under a key. A helper asks before it walks: `.items()` of its
    parameter only past `assert_type(param, Mapping, ...)`; a loop over its
    parameter, and a subscript of a loop value, only through
    `list_from_json_array` / the sized-tuple reader -- else a number where a map
    is expected is `'int' object has no attribute 'items'`, an AttributeError
    from underneath the library."""
    rule = "C19.decoders_check_shapes"
    n = 0
    for q, fi in sorted(ctx.prog.functions.items()):
        if not (q.startswith("btclib.psbt.psbt_utils.") and fi.name.startswith("decode_")):
            continue
        params = set(fi.params())
        g = ctx.cfg(fi)
        asserted = {c.args[0].id: [i for i in g.nodes_containing(c)] for c in own_nodes(fi.node)
                    if isinstance(c, ast.Call) and call_name(c) in ("assert_type", "fields_from_json_object") and c.args and isinstance(c.args[0], ast.Name)}
        for c in own_nodes(fi.node):
            if isinstance(c, ast.Call) and isinstance(c.func, ast.Attribute) and c.func.attr in ("items", "keys", "values") and isinstance(c.func.value, ast.Name) and c.func.value.id in params:
                n += 1
                p_ = c.func.value.id
                ok = p_ in asserted and g.path_avoiding(g.nodes_containing(c), asserted[p_]) is None
                rep.ob(rule, f"{q}:{p_}.{c.func.attr}()", ok, fi.where(c), f"`{p_}` is asked to be a Mapping first" if ok else
                       f"`{norm(c)}` walks `{p_}` as a map without asking: a json value of another type is an AttributeError, not the library's refusal")
        for lp in own_nodes(fi.node):
            if isinstance(lp, (ast.For, ast.comprehension)) and isinstance(lp.iter, ast.Name) and lp.iter.id in params:
                n += 1
                rep.ob(rule, f"{q}:for:{lp.iter.id}", False, fi.where(lp.iter), f"the parameter `{lp.iter.id}` is iterated as it came: a string is a list of its characters, a number a TypeError; read it with list_from_json_array")
        # subscripts of loop values: v[0] on an element nobody sized
        for lp in own_nodes(fi.node):
            if not isinstance(lp, (ast.For, ast.comprehension)):
                continue
            tv = {x.id for x in ast.walk(lp.target) if isinstance(x, ast.Name)}
            scope = lp if isinstance(lp, ast.For) else parent(lp)
            for x in ast.walk(scope) if scope is not None else []:
                if isinstance(x, ast.Subscript) and isinstance(x.value, ast.Name) and x.value.id in tv and isinstance(ctx.fold(x.slice, fi.module), int):
                    n += 1
                    rep.ob(rule, f"{q}:{norm(x)}", False, fi.where(x), f"`{norm(x)}` subscripts an element of the json as it came: null is a TypeError, a short array an IndexError")
    rep.ob(rule, "scanned", True, "btclib/psbt/psbt_utils.py:1", f"{n} walks of a json value in the decode_ helpers")
    rep.floor(rule, 4)


def rule_int_fields_typed(ctx: Ctx, rep: Report) -> None:
    """C19.int_fields_typed: a psbt map's integer fields arrive from json as
    whatever the json held. Before `assert_valid` compares one with its bounds,
    its type is asked (`is_integer`, directly or in a helper that walks the
    field names) or it is handed to a validator of its own (`valid_...`,
    `assert_...`): an optional integer field that is only ever *compared* is a
    TypeError about `<=` for a string."""
    from rules.C05 import _optional_int
    rule = "C19.int_fields_typed"
    n = 0
    for q in ("btclib.psbt.psbt_in.PsbtIn", "btclib.psbt.psbt_out.PsbtOut", "btclib.psbt.psbt.Psbt"):
        ci = ctx.cls(q)
        av = ci.methods["assert_valid"]
        typed: set[str] = set()
        fns = [av] + [f for name, f in av.module.functions.items() if any(isinstance(c, ast.Call) and call_name(c) == name for c in own_nodes(av.node))]
        for f in fns:
            asks = any(isinstance(c, ast.Call) and call_name(c) == "is_integer" for c in own_nodes(f.node))
            if asks:
                typed |= {c.value for c in own_nodes(f.node) if isinstance(c, ast.Constant) and isinstance(c.value, str)}
                typed |= {x.attr for c in own_nodes(f.node) if isinstance(c, ast.Call) and call_name(c) == "is_integer" for x in ast.walk(c) if isinstance(x, ast.Attribute)}
        # fields handed to the helper positionally (Psbt: _assert_int_field_types(self.tx_modifiable, self.fallback_lock_time))
        for c in own_nodes(av.node):
            if isinstance(c, ast.Call):
                callee = av.module.functions.get(call_name(c))
                if callee is not None and any(isinstance(x, ast.Call) and call_name(x) == "is_integer" for x in own_nodes(callee.node)):
                    typed |= {x.attr for a_ in c.args for x in ast.walk(a_) if isinstance(x, ast.Attribute)}
                if call_name(c).startswith(("valid_", "assert_valid_", "_assert_valid")) or call_name(c) in ("valid_sats_amount",):
                    typed |= {x.attr for a_ in c.args for x in ast.walk(a_) if isinstance(x, ast.Attribute)}
        for st in ci.node.body:
            if isinstance(st, ast.AnnAssign) and isinstance(st.target, ast.Name) and (_optional_int(ctx, st.annotation) or str(norm(st.annotation)) == "int"):
                f = st.target.id
                compared = any(isinstance(c, ast.Compare) and any(isinstance(x, ast.Attribute) and x.attr == f for x in ast.walk(c)) and any(isinstance(o, (ast.Lt, ast.LtE, ast.Gt, ast.GtE)) for o in c.ops) for c in own_nodes(av.node))
                if not compared and f not in typed:
                    continue
                n += 1
                rep.ob(rule, f"{ci.name}.{f}", f in typed, av.where(), f"`{f}` is asked its type (or validated by its own validator) before it is compared" if f in typed else
                       f"`{ci.name}.assert_valid` compares `{f}` with its bounds without asking its type: a json string is a TypeError about the operator")
    rep.floor(rule, 6)


def rule_input_index_bounded(ctx: Ctx, rep: Report) -> None:
    """C19.input_index_bounded: `verify_input(prevouts, tx, i)` reads `tx.vin[i]` and
    `prevouts[i]` with a number its caller chose. Both reads come after a
    refusal of an i outside 0 .. len(tx.vin) - 1 and of a prevouts list of
    another length than the inputs -- else an index past the end is an
    IndexError out of the engine's front door."""
    from sa.ranges import refusal_constraints, has, has_bound
    rule = "C19.input_index_bounded"
    fi = ctx.func("btclib.script.engine.verify_input")
    pv, tx, i = fi.params()[0], fi.params()[1], fi.params()[2]
    cs = refusal_constraints(ctx, fi)
    lower = has_bound(cs, "<", 0, subject=i) is not None or has_bound(cs, "<=", -1, subject=i) is not None
    upper = has(cs, i, ">=", f"len({tx}.vin)") is not None or has(cs, i, ">", f"len({tx}.vin) - 1") is not None or has(cs, i, ">=", f"len({pv})") is not None
    rep.ob(rule, "verify_input:index", lower and upper, fi.where(), f"`{i}` is held to 0 .. len({tx}.vin) - 1" if lower and upper else
           f"`{i}` is not held to the transaction's inputs before `{tx}.vin[{i}]` is read (refusals: {[c.show() for c in cs][:4]}): an index past the end is an IndexError")
    same = has(cs, f"len({pv})", "!=", f"len({tx}.vin)") is not None or has(cs, f"len({tx}.vin)", "!=", f"len({pv})") is not None
    rep.ob(rule, "verify_input:prevouts", same, fi.where(), "one previous output per input" if same else f"`{pv}` is not held to one entry per input: `{pv}[{i}]` of a shorter list is an IndexError")
    # the same question of the other public function that indexes two caller lists with a caller number
    f2 = ctx.func("btclib.ecc.musig2.partial_sig_verify")
    idx = f2.params()[-1]
    cs2 = refusal_constraints(ctx, f2)
    lists = [x.value.id for x in own_nodes(f2.node) if isinstance(x, ast.Subscript) and isinstance(x.slice, ast.Name) and x.slice.id == idx and isinstance(x.value, ast.Name)]
    lo = has_bound(cs2, "<", 0, subject=idx) is not None or has_bound(cs2, "<=", -1, subject=idx) is not None
    up = any(has(cs2, idx, ">=", f"len({l_})") is not None or has(cs2, idx, ">", f"len({l_}) - 1") is not None for l_ in lists)
    rep.ob(rule, "partial_sig_verify:index", bool(lists) and lo and up, f2.where(), f"`{idx}` is held to the signers' lists {sorted(set(lists))}" if lists and lo and up else
           f"`{idx}` indexes {sorted(set(lists))} unasked (refusals: {[c.show() for c in cs2][:3]}): a signer index past the lists is an IndexError out of a predicate")
    # ... and of the two psbt functions that index the input maps with a caller number (a negative one
    # is answered from the end of the list, silently)
    for q3 in ("btclib.psbt.psbt.ecdsa_sig_hash", "btclib.psbt.psbt.taproot_sig_hash"):
        f3 = ctx.func(q3)
        ps, ix = f3.params()[0], f3.params()[1]
        cs3 = refusal_constraints(ctx, f3)
        lo3 = has_bound(cs3, "<", 0, subject=ix) is not None or has_bound(cs3, "<=", -1, subject=ix) is not None
        up3 = has(cs3, ix, ">=", f"len({ps}.inputs)") is not None or has(cs3, ix, ">", f"len({ps}.inputs) - 1") is not None
        rep.ob(rule, f"{f3.name}:index", lo3 and up3, f3.where(), f"`{ix}` is held to the psbt's inputs" if lo3 and up3 else
               f"`{ps}.inputs[{ix}]` is read with `{ix}` unasked (refusals: {[c.show() for c in cs3][:3]}): past the end an IndexError, below zero the hash of another input")
    # ... and every other function of the psbt protocol modules that reads `<psbt>.inputs[<int parameter>]`:
    # the bound is its own, or that of a helper it calls first with the same two arguments
    def bounded(f_, ps_, ix_, depth=0) -> bool:
        cs_ = refusal_constraints(ctx, f_)
        if (has_bound(cs_, "<", 0, subject=ix_) is not None or has_bound(cs_, "<=", -1, subject=ix_) is not None) and \
                (has(cs_, ix_, ">=", f"len({ps_}.inputs)") is not None or has(cs_, ix_, ">", f"len({ps_}.inputs) - 1") is not None):
            return True
        if depth >= 2:
            return False
        first_read = min([x.lineno for x in own_nodes(f_.node) if isinstance(x, ast.Subscript) and str(norm(x.value)) == f"{ps_}.inputs" and isinstance(x.slice, ast.Name) and x.slice.id == ix_] or [10 ** 9])
        for c in own_nodes(f_.node):
            if isinstance(c, ast.Call) and c.lineno <= first_read and len(c.args) >= 2 and isinstance(c.args[0], ast.Name) and c.args[0].id == ps_ and isinstance(c.args[1], ast.Name) and c.args[1].id == ix_:
                callee = ctx.prog.functions.get(ctx.resolve_call(f_, c) or "")
                if callee is not None and callee is not f_ and len(callee.params()) >= 2 and bounded(callee, callee.params()[0], callee.params()[1], depth + 1):
                    return True
        return False
    for q4, f4 in sorted(ctx.prog.functions.items()):
        if not q4.startswith(("btclib.psbt.musig2.", "btclib.psbt.silent_payments.")) or f4.name.startswith("_"):
            continue
        a4 = f4.node.args
        ints4 = {p_.arg for p_ in a4.posonlyargs + a4.args if p_.annotation is not None and str(norm(p_.annotation)) == "int"}
        reads = {(str(norm(x.value.value)), x.slice.id) for x in own_nodes(f4.node) if isinstance(x, ast.Subscript) and isinstance(x.value, ast.Attribute) and x.value.attr == "inputs"
                 and isinstance(x.value.value, ast.Name) and x.value.value.id in f4.params() and isinstance(x.slice, ast.Name) and x.slice.id in ints4}
        calls_helper = any(isinstance(c, ast.Call) and len(c.args) >= 2 and isinstance(c.args[1], ast.Name) and c.args[1].id in ints4 for c in own_nodes(f4.node))
        for ps4, ix4 in sorted(reads):
            ok4 = bounded(f4, ps4, ix4)
            rep.ob(rule, f"{f4.module.name.rsplit('.', 1)[-1]}.{f4.name}:index", ok4, f4.where(), f"`{ix4}` is held to the psbt's inputs before `{ps4}.inputs[{ix4}]`" if ok4 else
                   f"`{ps4}.inputs[{ix4}]` is read with `{ix4}` unasked: past the end an IndexError, below zero another input's maps")
    rep.floor(rule, 9)


def rule_digit_runs_bounded(ctx: Ctx, rep: Report) -> None:
    """C19.digit_runs_bounded: `int(text)` of a digit string is quadratic in its
    length and, past 4300 digits, a ValueError of the interpreter's own. A
    module-level pattern that is nothing but a run of digits (`[0-9]+`, `\\d+`)
    is what vets such a string before `int` sees it, and it bounds the run:
    the quantifier has a maximum (`{1,10}`). The patterns are read with the
    standard library's regex parser, as data."""
    import re._parser as _sp  # the regex *parser*: the pattern is analysed, nothing of btclib runs
    rule = "C19.digit_runs_bounded"
    n = 0
    for mq, mi in sorted(ctx.prog.modules.items()):
        for st in mi.tree.body:
            if not (isinstance(st, ast.Assign) and isinstance(st.targets[0], ast.Name) and isinstance(st.value, ast.Call) and str(norm(st.value.func)) == "re.compile" and st.value.args):
                continue
            pat = ctx.fold(st.value.args[0], mi)
            if not isinstance(pat, str):
                continue
            try:
                items = list(_sp.parse(pat))
            except Exception:  # noqa: BLE001
                continue
            if len(items) != 1 or str(items[0][0]) not in ("MAX_REPEAT", "MIN_REPEAT"):
                continue
            lo, hi, sub = items[0][1]
            sub = list(sub)
            digits = len(sub) == 1 and ((str(sub[0][0]) == "IN" and all((str(k) == "RANGE" and v == (48, 57)) or (str(k) == "CATEGORY" and "DIGIT" in str(v)) for k, v in sub[0][1])))
            if not digits:
                continue
            n += 1
            bounded = hi != _sp.MAXREPEAT and hi <= 40
            if not bounded:
                # unbounded is fine where every int() of what it vetted sits in a handler for ValueError
                pname = st.targets[0].id
                ints = []
                for f_ in mi.functions.values():
                    vetted = {c.args[0].id for c in own_nodes(f_.node) if isinstance(c, ast.Call) and isinstance(c.func, ast.Attribute) and c.func.attr in ("fullmatch", "match")
                              and isinstance(c.func.value, ast.Name) and c.func.value.id == pname and c.args and isinstance(c.args[0], ast.Name)}
                    ints += [(f_, c) for c in own_nodes(f_.node) if isinstance(c, ast.Call) and isinstance(c.func, ast.Name) and c.func.id == "int" and c.args and isinstance(c.args[0], ast.Name) and c.args[0].id in vetted]
                if ints and all(_local_handlers(c) & {"ValueError", "Exception", "BaseException"} for _f, c in ints):
                    rep.ob(rule, f"{mq}.{pname}", True, f"{mi.relpath}:{st.lineno}", f"`{pat}` is unbounded, and every int() of what it vets is inside a ValueError handler")
                    continue
            rep.ob(rule, f"{mq}.{st.targets[0].id}", bounded, f"{mi.relpath}:{st.lineno}", f"`{pat}`: at most {hi} digits" if bounded else
                   f"`{pat}` admits a digit run of any length: int() of it is the interpreter's ValueError past 4300 digits, out of a parser of hostile text")
    rep.floor(rule, 2)


def rule_hashable_membership_(ctx: Ctx, rep: Report) -> None:
    """C19.hashable_membership: no prefix test hashes a slice of octets that may be a bytearray (see sigcommon.rule_hashable_membership)."""
    from rules.sigcommon import rule_hashable_membership
    rule_hashable_membership(ctx, rep, "C19.hashable_membership", ('btclib.',))


def rule_single_pass_(ctx: Ctx, rep: Report) -> None:
    """C19.single_pass: a parameter that may be a one-shot iterable is walked, or handed to a function that walks it, at most once per path (see sigcommon.rule_single_pass)."""
    from rules.sigcommon import rule_single_pass
    rule_single_pass(ctx, rep, "C19.single_pass", ('btclib.',), 40)


def rule_shares_agree_on_length(ctx: Ctx, rep: Report) -> None:
    """C19.shares_agree_on_length: SLIP39's interpolation walks the share values byte
    by byte, all at the first one's length: the reader refuses a set whose
    values differ in length before it interpolates (C13.thresholds'
    `common_fields`, reported here) -- else two checksum-valid mnemonics of 16
    and 32 bytes are an IndexError out of `master_secret_from_mnemonics`."""
    from rules import C13
    tmp = Report("C13", rep.tier)
    tmp.quiet = True
    C13.rule_thresholds(ctx, tmp)
    n = 0
    for o in tmp.obs:
        if o.instance == "common_fields":
            n += 1
            rep.ob("C19.shares_agree_on_length", o.instance, o.held, o.site, o.detail if o.held else "the fields every share of a set must agree on lack one (identifier, extendable flag, iteration exponent, group threshold, group count, value length): shares of different lengths reach the interpolation")
    rep.floor("C19.shares_agree_on_length", 1)


def rule_rewind_to_where_it_started(ctx: Ctx, rep: Report) -> None:
    """C19.rewind_to_where_it_started: `Message.parse` reads from the caller's stream
    and, when the message is not all there yet, puts the cursor back where it
    found it -- the position it recorded with `tell()` before reading. Every
    `seek` in it goes to that recorded position: a relative seek by the size it
    *meant* to read moves past the start when fewer bytes were there, and the
    next parse reads the previous message again."""
    rule = "C19.rewind_to_where_it_started"
    fi = ctx.func("btclib.p2p.message.Message.parse")
    marks = {a.targets[0].id for a in own_nodes(fi.node) if isinstance(a, ast.Assign) and isinstance(a.targets[0], ast.Name) and isinstance(a.value, ast.Call) and isinstance(a.value.func, ast.Attribute) and a.value.func.attr == "tell"}
    seeks = [c for c in own_nodes(fi.node) if isinstance(c, ast.Call) and isinstance(c.func, ast.Attribute) and c.func.attr == "seek"]
    if not seeks:
        rep.unknown(rule, "Message.parse", fi.where(), "no seek")
        return
    for c in seeks:
        ok = len(c.args) == 1 and isinstance(c.args[0], ast.Name) and c.args[0].id in marks
        rep.ob(rule, f"Message.parse:seek@L{c.lineno - fi.node.lineno}", ok, fi.where(c), "back to the recorded position" if ok else
               f"`{norm(c)}` is not a return to the position recorded with tell(): the cursor ends up somewhere else when fewer bytes were read than expected")
    rep.floor(rule, 2)


_COMPUTED_INDEX_SAMPLE = """
def is_prefixed(addr, hrp):
    return addr.startswith(hrp) and addr[len(hrp)] == "1"
"""


def _computed_index_reads(fn: ast.AST) -> list[ast.Subscript]:
    out = []
    for s_ in own_nodes(fn):
        if isinstance(s_, ast.Subscript) and isinstance(s_.ctx, ast.Load) and not isinstance(s_.slice, ast.Slice) and \
                any(isinstance(c, ast.Call) and call_name(c) == "len" for c in ast.walk(s_.slice)):
            out.append(s_)
    return out


def rule_predicates_read_no_computed_position(ctx: Ctx, rep: Report) -> None:
    """C19.predicates_read_no_computed_position: a predicate answers False for text that
    is too short, it does not index past its end: in the public boolean
    functions, an item read at a position computed from a length
    (`addr[len(hrp)]`) stands under a `try` that catches IndexError or under a
    test of the value's own length. A slice cannot raise; an index can --
    `is_segwit_prefixed("bc")` would be an IndexError, and `bms.verify` with it."""
    from sa.loader import _set_parents
    rule = "C19.predicates_read_no_computed_position"
    sample = ast.parse(_COMPUTED_INDEX_SAMPLE)
    _set_parents(sample)
    rep.ob(rule, "selftest:sample", len(_computed_index_reads(sample.body[0])) == 1, "rules/C19.py:1", "the detector fires on its own sample (expected count on the tree is zero)")
    n = 0
    for fi in _bool_functions(ctx):
        n += 1
        reads = _computed_index_reads(fi.node)
        if not reads:
            continue
        g = ctx.cfg(fi)
        for s_ in reads:
            covered = False
            child, p_ = s_, parent(s_)
            while p_ is not None and p_ is not fi.node:
                if isinstance(p_, ast.Try) and child in p_.body and any(h.type is None or any(x in norm(h.type) for x in ("IndexError", "LookupError", "Exception")) for h in p_.handlers):
                    covered = True
                child, p_ = p_, parent(p_)
            base = norm(s_.value)
            if not covered:
                covered = any(f"len({base})" in t for t, _pol in g.facts_at_ast(s_))
            rep.ob(rule, f"{fi.qualname}:{norm(s_)[:40]}", covered, fi.where(s_), "under a length test or an IndexError handler" if covered else
                   f"`{norm(s_)}` reads a computed position with nothing having asked how long `{base}` is: text that ends there is an IndexError, not False")
    rep.ob(rule, "scanned", True, "btclib:1", f"{n} public boolean functions")
    rep.floor(rule, 2)


def rule_partial_sigs_each_parsed(ctx: Ctx, rep: Report) -> None:
    """C19.partial_sigs_each_parsed: the Finalizer and `assert_signed` read `sig[-1]` and
    `sig[:-1]` of every partial signature a psbt holds, on the strength of
    the parser having validated each: in `_assert_valid_partial_sigs` every
    entry of the map reaches the key parse and the DER parse -- no
    `continue`, no `break`, neither parse under a condition. An entry let
    through unparsed (an empty value) is an IndexError two roles later."""
    rule = "C19.partial_sigs_each_parsed"
    fi = ctx.func("btclib.psbt.psbt_in._assert_valid_partial_sigs")
    loops = [n for n in own_nodes(fi.node) if isinstance(n, ast.For)]
    if len(loops) != 1:
        rep.unknown(rule, "_assert_valid_partial_sigs", fi.where(), f"{len(loops)} loops")
        return
    skips = [n for n in ast.walk(loops[0]) if isinstance(n, (ast.Continue, ast.Break, ast.Return))]
    rep.ob(rule, "no_entry_skipped", not skips, fi.where(skips[0] if skips else loops[0]), "every entry goes through the loop body" if not skips else
           f"`{norm(parent(skips[0]))[:60]}` lets an entry past the parses: the roles that read it index into a value nothing validated")
    for what, nm in (("key", "point_from_octets"), ("signature", "parse")):
        calls = [c for c in ast.walk(loops[0]) if isinstance(c, ast.Call) and call_name(c) == nm]
        cond = False
        for c in calls:
            p_ = parent(c)
            while p_ is not None and p_ is not loops[0]:
                if isinstance(p_, (ast.If, ast.IfExp, ast.BoolOp)):
                    cond = True
                p_ = parent(p_)
        ok = bool(calls) and not cond
        rep.ob(rule, f"{what}_parsed_unconditionally", ok, fi.where(calls[0] if calls else loops[0]), f"the {what} of every entry is parsed" if ok else f"the {what} parse is missing or under a condition")
    rep.floor(rule, 3)


RULES = [
    ("C19.partial_sigs_each_parsed", rule_partial_sigs_each_parsed),

    ("C19.predicates_read_no_computed_position", rule_predicates_read_no_computed_position),

    ("C19.shares_agree_on_length", rule_shares_agree_on_length),
    ("C19.rewind_to_where_it_started", rule_rewind_to_where_it_started),

    ("C19.single_pass", rule_single_pass_),

    ("C19.hashable_membership", rule_hashable_membership_),

    ("C19.digit_runs_bounded", rule_digit_runs_bounded),

    ("C19.input_index_bounded", rule_input_index_bounded),

    ("C19.int_fields_typed", rule_int_fields_typed),

    ("C19.decoders_check_shapes", rule_decoders_check_shapes),

    ("C19.lookahead_bounded", rule_lookahead_bounded),
    ("C19.positions_checked_before_use", rule_positions_checked_before_use),

    ("C19.nested_validated", rule_nested_validated_),

    ("C19.sticky_flags", rule_sticky_flags_),
    ("C19.empty_element_index", rule_empty_element_index),
    ("C19.loose_to_strict", rule_loose_to_strict_),
    ("C19.coercion_used", rule_coercion_used_),

    ("C19.text_encode", rule_text_encode),
    ("C19.first_transaction", rule_first_transaction),
    ("C19.sized_int_siblings", rule_sized_int_siblings),
    ("C19.no_overread", rule_no_overread),
    ("C19.quantize_bounded", rule_quantize_bounded),
    ("C19.raise_classes", rule_raise_classes),
    ("C19.throwers", rule_throwers),
    ("C19.bool_total", rule_bool_total),
    ("C19.json_boundary", rule_json_boundary),
    ("C19.bounded_alloc", rule_bounded_alloc),
    ("C19.recursion", rule_recursion),
    ("C19.to_bytes_range", rule_to_bytes_range),
]

CONTROLS = [
    {"rule": "C19.text_encode", "name": "the nulldata text is encoded with no handler (F24)", "module": "btclib.script.script_pub_key",
     "edit": lambda ctx: M.sub_expr(ctx, "btclib.script.script_pub_key.ScriptPubKey.nulldata", lambda n: isinstance(n, ast.Try) and "data.encode()" in norm(n), "data = data.encode()")},
    {"rule": "C19.first_transaction", "name": "witness_commitment indexes an empty block (F23)", "module": "btclib.block.block",
     "edit": lambda ctx: M.drop_if(ctx, "btclib.block.block.Block.witness_commitment", lambda n: norm(n.test) == "not self.transactions")},
    {"rule": "C19.no_overread", "name": "the trailing probe is read before `strict` is asked", "module": "btclib.ecc.dsa",
     "edit": lambda ctx: M.sub_expr(ctx, "btclib.ecc.dsa.Sig.parse", M.is_text("strict and stream.read(1) != b''"), "stream.read(1) != b'' and strict")},
    {"rule": "C19.quantize_bounded", "name": "the money range is no longer refused before quantize", "module": "btclib.amount",
     "edit": lambda ctx: M.drop_if(ctx, "btclib.amount.valid_btc_amount", lambda n: "_MAX_BITCOIN" in norm(n.test))},
    {"rule": "C19.sized_int_siblings", "name": "the psbt output amount is read unsigned", "module": "btclib.psbt.psbt_out",
     "edit": lambda ctx: M.sub_expr(ctx, "btclib.psbt.psbt_out.PsbtOut.parse", lambda n: isinstance(n, ast.Call) and call_name(n) == "deserialize_sized_int" and "'amount'" in norm(n), "deserialize_sized_int(k, v, 'amount', 8)")},
    {"rule": "C19.raise_classes", "name": "var_int.parse raises a bare ValueError", "module": "btclib.var_int",
     "edit": lambda ctx: M.sub_expr(ctx, "btclib.var_int.parse", lambda n: isinstance(n, ast.Raise) and "BTClibValueError" in norm(n),
                                    lambda n: norm(n).replace("BTClibValueError", "ValueError", 1))},
    {"rule": "C19.throwers", "name": "Psbt.b64decode loses its handler", "module": "btclib.psbt.psbt",
     "edit": lambda ctx: M.sub_expr(ctx, "btclib.psbt.psbt.Psbt.b64decode", lambda n: isinstance(n, ast.ExceptHandler), lambda n: norm(n).replace("ValueError", "KeyError", 1).replace("binascii.Error", "KeyError").replace("Exception", "KeyError"))},
    {"rule": "C19.bool_total", "name": "_is_funct catches ValueError only", "module": "btclib.script.script_pub_key",
     "edit": lambda ctx: M.sub_expr(ctx, "btclib.script.script_pub_key._is_funct", lambda n: isinstance(n, ast.Tuple) and "BTClibRuntimeError" in norm(n), "ValueError")},
    {"rule": "C19.bool_total", "name": "dsa.verify_ catches ValueError only", "module": "btclib.ecc.dsa",
     "edit": lambda ctx: M.sub_expr(ctx, "btclib.ecc.dsa.verify_", lambda n: isinstance(n, ast.Tuple) and "BTClibRuntimeError" in norm(n), "ValueError")},
    {"rule": "C19.json_boundary", "name": "OutPoint.from_dict subscripts the raw argument", "module": "btclib.tx.out_point",
     "edit": lambda ctx: M.sub_expr(ctx, "btclib.tx.out_point.OutPoint.from_dict", lambda n: isinstance(n, ast.Assign) and "fields_from_json_object" in norm(n), "pass")},
    {"rule": "C19.to_bytes_range", "name": "batch verification drops the key range check", "module": "btclib.ecc.ssa",
     "edit": lambda ctx: M.sub_expr(ctx, "btclib.ecc.ssa.assert_batch_as_valid_", lambda n: isinstance(n, ast.Expr) and norm(n) == "_x_only_bytes(x_Q, ec)", "pass")},
    {"rule": "C19.recursion", "name": "descriptor tree depth not incremented on the right branch", "module": "btclib.descriptors.descriptors",
     "edit": lambda ctx: M.sub_expr(ctx, "btclib.descriptors.descriptors._parse_tree", M.is_text("_parse_tree(branches[1], prv_keys, depth + 1)"), "_parse_tree(branches[1], prv_keys, depth)")},
    {"rule": "C19.json_boundary", "name": "a bip32 derivation entry is only type-checked", "module": "btclib.bip32.key_origin",
     "edit": lambda ctx: M.sub_expr(ctx, "btclib.bip32.key_origin._decode_from_bip32_deriv", lambda n: isinstance(n, ast.Assign) and "fields_from_json_object" in norm(n), "pass")},
    {"rule": "C19.bounded_alloc", "name": "parse_taproot_bip32 loses its available-bytes bound", "module": "btclib.psbt.psbt_utils",
     "edit": lambda ctx: M.drop_if(ctx, "btclib.psbt.psbt_utils.parse_taproot_bip32", lambda n: "available" in norm(n.test))},
]
