"""C07 -- BIP32 derivation obeys the BIP's equations and its algebraic laws.

The equations and laws are values: not decided. Decided: a hardened step from
a public key is refused before any HMAC; an invalid child (left half >= n,
zero key, infinity) is refused on both arms and never retried with another
index; depth / index / seed bounds; the parent fingerprint is taken between
the last two steps; the HMAC input shape; version pairing tables.
"""

from __future__ import annotations

import ast

from sa import mutate as M
from sa import pattern as PT
from sa.ctx import Ctx
from sa.layout import ints, write_atoms
from sa.loader import AnalysisError, call_name, norm, own_nodes, parent
from sa.ranges import has, has_bound, refusal_constraints
from sa.report import Report

NOTES = ("C07: decides hardened-from-public refusal before the HMAC, invalid-child refusals on both arms without retry, "
         "depth/index/seed ranges, fingerprint ordering and the HMAC input shape; derived key values, split/compose and "
         "neuter commutation are not decided.")
B = "btclib.bip32.bip32"
DP = "btclib.bip32.der_path"


def rule_hardened_pub(ctx: Ctx, rep: Report) -> None:
    """C07.hardened_pub: a hardened index is refused before the first HMAC of a public derivation."""
    rule = "C07.hardened_pub"
    off = ctx.const(DP, "_HARDENED_OFFSET")
    rep.ob(rule, "_HARDENED_OFFSET", off == 2**31, "btclib/bip32/der_path.py:1", f"_HARDENED_OFFSET = {off!r}")
    for q, sinks in ((f"{B}.__pub_key_path_derivation", ("__pub_key_derivation", "_pub_key_offset", "_pub_key_tweak_chain")),
                     (f"{B}.pub_key_derivation_tweaks", ("_pub_key_offset", "_pub_key_tweak_chain"))):
        fi = ctx.func(q)
        g = ctx.cfg(fi)
        hits = [n for t, pol, n in ctx.refusals(fi) if pol and isinstance(t, ast.Call) and call_name(t) == "any"
                and "index >= _HARDENED_OFFSET" in norm(t) and norm(t.args[0].generators[0].iter) == "indexes" and not t.args[0].generators[0].ifs]
        tg = [i for c in own_nodes(fi.node) if isinstance(c, ast.Call) and call_name(c) in sinks for i in g.nodes_containing(c)]
        ok = bool(hits) and bool(tg) and g.path_avoiding(tg, [h.id for h in hits]) is None
        rep.ob(rule, fi.name, ok, fi.where(), "any(index >= 2^31 for index in indexes) refused before the first HMAC" if ok else
               "a hardened step can reach the public-key HMAC")
    # _derive chooses the arm by is_private
    d = ctx.func(f"{B}._derive")
    g = ctx.cfg(d)
    pub = [c for c in own_nodes(d.node) if isinstance(c, ast.Call) and call_name(c) == "__pub_key_path_derivation"]
    prv = [c for c in own_nodes(d.node) if isinstance(c, ast.Call) and call_name(c) == "__prv_key_path_derivation"]
    ok = bool(pub) and bool(prv) and any(t == "working.is_private" and p is False for t, p in g.facts_at_ast(pub[0])) and any(t == "working.is_private" and p for t, p in g.facts_at_ast(prv[0]))
    rep.ob(rule, "_derive:arm_by_is_private", ok, d.where(), "private keys take the private walk, public keys the public one")


def rule_invalid_child(ctx: Ctx, rep: Report) -> None:
    """C07.invalid_child: left half >= n, zero key and infinity are refused on both arms; no retry."""
    rule = "C07.invalid_child"
    nb = ctx.module(B).assigns.get("_N_BYTES")
    rep.ob(rule, "_N_BYTES", bool(nb) and norm(nb[0]).startswith("secp256k1.n.to_bytes(") and "'big'" in norm(nb[0]), "btclib/bip32/bip32.py:1", f"_N_BYTES = {norm(nb[0]) if nb else None}")
    for q in (f"{B}._pub_key_offset", f"{B}.__prv_key_derivation"):
        fi = ctx.func(q)
        g = ctx.cfg(fi)
        mo: dict[str, str] = {}
        off = PT.find(fi.node, "$off = $h[:32]", mo)
        hm = PT.find(fi.node, "$h = hmac.new($$key, $$data, 'sha512').digest()", mo)
        rep.ob(rule, f"{fi.name}:offset_is_left_half", off is not None and hm is not None, fi.where(off), "the offset is the left 32 bytes of the HMAC-SHA512")
        o_ = mo.get("off", "offset")
        hits = [n for t, pol, n in ctx.refusals(fi) if pol and str(norm(t)) in (f"{o_} >= _N_BYTES", f"_N_BYTES <= {o_}")]
        ok = bool(hits) and g.must_pass([h.id for h in hits]) is None
        rep.ob(rule, f"{fi.name}:left_half", ok, fi.where(), "offset >= n refused on every path" if ok else "an out-of-range HMAC left half is used")
    pd = ctx.func(f"{B}.__prv_key_derivation")
    g = ctx.cfg(pd)
    z = [n for t, pol, n in ctx.refusals(pd) if pol and norm(t) == "prv_key_int == 0"]
    rep.ob(rule, "prv:zero_key(python arm)", bool(z), pd.where(), "child key 0 refused")
    tr = [n for n in own_nodes(pd.node) if isinstance(n, ast.Try) and any(isinstance(c, ast.Call) and call_name(c) == "prvkey_tweak_add" for s in n.body for c in ast.walk(s))]
    okd = bool(tr) and any(norm(h.type) == "ValueError" and any(isinstance(r, ast.Raise) and "_invalid_child" in norm(r) for r in ast.walk(h)) for h in tr[0].handlers)
    rep.ob(rule, "prv:zero_key(delegated arm)", okd, pd.where(), "the bindings' ValueError becomes the invalid-child error")
    pk = ctx.func(f"{B}.__pub_key_derivation")
    tr = [n for n in own_nodes(pk.node) if isinstance(n, ast.Try) and any(isinstance(c, ast.Call) and call_name(c) == "tweak_add" for s in n.body for c in ast.walk(s))]
    okp = bool(tr) and any(norm(h.type) == "ValueError" and any(isinstance(r, ast.Raise) and "_invalid_child" in norm(r) for r in ast.walk(h)) for h in tr[0].handlers)
    rep.ob(rule, "pub:infinity", okp, pk.where(), "a child at infinity is the invalid-child error")
    pc = ctx.func(f"{B}._PythonPubKeyTweakChain.tweak_add")
    rep.ob(rule, "pub:infinity(python chain)", any("ValueError" in norm(r) or "BTClibValueError" in norm(r) for r in own_nodes(pc.node) if isinstance(r, ast.Raise)), pc.where(), "the Python chain raises on infinity as the bindings do")
    # no retry: the single-step functions contain no loop, and the walkers' loops do not write `index`
    for q in (f"{B}.__prv_key_derivation", f"{B}.__pub_key_derivation", f"{B}._pub_key_offset"):
        fi = ctx.func(q)
        loops = [n for n in own_nodes(fi.node) if isinstance(n, (ast.For, ast.While))]
        rep.ob(rule, f"{fi.name}:no_retry", not loops, fi.where(), "a single attempt: no loop" if not loops else "a loop in the single-step derivation: an invalid child may be silently replaced")
    for q in (f"{B}.__prv_key_path_derivation", f"{B}.__pub_key_path_derivation", f"{B}.pub_key_derivation_tweaks"):
        fi = ctx.func(q)
        bad = [n for n in own_nodes(fi.node) if isinstance(n, (ast.AugAssign, ast.Assign)) and any(isinstance(x, ast.Name) and x.id == "index" and isinstance(x.ctx, ast.Store) for x in ast.walk(n))]
        tries = [n for n in own_nodes(fi.node) if isinstance(n, ast.Try) and any(isinstance(x, (ast.Continue,)) for h in n.handlers for x in ast.walk(h))]
        rep.ob(rule, f"{fi.name}:no_retry", not bad and not tries, fi.where(), "the walk never rewrites an index or skips a failed step")
    ic = ctx.func(f"{B}._invalid_child")
    rep.ob(rule, "_invalid_child:class", ic.node.returns is not None and norm(ic.node.returns) == "BTClibValueError", ic.where(), "the invalid-child error is a BTClibValueError")


def rule_no_skip(ctx: Ctx, rep: Report) -> None:
    """C07.no_skip: nowhere in the bip32 package is a refusal of the derivation
    swallowed -- every handler that can catch a BTClibValueError (it is a
    ValueError) ends in a raise. A handler that `continue`s or `pass`es past an
    invalid child hands back the *next* key under this index's place."""
    from sa.effects import Raises
    rule = "C07.no_skip"
    R = Raises(ctx)
    n = 0
    for modname in (B, DP, "btclib.bip32.key_origin", "btclib.bip32.slip132"):
        mi = ctx.prog.modules.get(modname)
        if mi is None:
            continue
        for fi in sorted(mi.functions.values(), key=lambda f: f.qualname):
            for t in own_nodes(fi.node):
                if not isinstance(t, ast.Try):
                    continue
                for h in t.handlers:
                    names = [norm(x) for x in (h.type.elts if isinstance(h.type, ast.Tuple) else [h.type])] if h.type is not None else ["BaseException"]
                    catches = any(nm.split(".")[-1] in ("ValueError", "BTClibValueError", "Exception", "BaseException") for nm in names)
                    if not catches:
                        continue
                    n += 1
                    ends = _handler_falls_through(h)
                    # what is being guarded: a derivation step (or a helper that makes one)?
                    derives = any(isinstance(c, ast.Call) and (("deriv" in call_name(c).lower()) or call_name(c) in ("tweak_add", "prvkey_tweak_add") or any(
                        "deriv" in (q2 or "").rsplit(".", 1)[-1].lower() for q2 in [ctx.resolve_call(fi, c)])) for st in t.body for c in ast.walk(st))
                    predicate = fi.node.returns is not None and norm(fi.node.returns) == "bool" and all(
                        isinstance(r, ast.Return) and isinstance(r.value, ast.Constant) and r.value.value is False for st in h.body for r in ast.walk(st) if isinstance(r, ast.Return))
                    if ends and (not derives or predicate):
                        rep.ob(rule, f"{fi.qualname}:except {'/'.join(names)}@{_nth(fi, t)}", True, fi.where(h),
                               "a predicate answering False" if predicate else "the handler recovers, but what it guards is not a derivation step")
                        continue
                    rep.ob(rule, f"{fi.qualname}:except {'/'.join(names)}@{_nth(fi, t)}", not ends, fi.where(h),
                           "the handler re-raises (a conversion, not a recovery)" if not ends else
                           "the handler can complete normally: a refused step is skipped, and what comes back is another index's key (or a shorter list)")
    rep.floor(rule, 4)


def _nth(fi, t: ast.Try) -> int:
    return [x for x in own_nodes(fi.node) if isinstance(x, ast.Try)].index(t)


def _handler_falls_through(h: ast.ExceptHandler) -> bool:
    """May the handler's body complete without raising (syntactic: last statement on every arm)."""
    def falls(body: list[ast.stmt]) -> bool:
        if not body:
            return True
        last = body[-1]
        if any(isinstance(x, (ast.Continue, ast.Break, ast.Return)) for st in body for x in ast.walk(st)):
            return True
        if isinstance(last, ast.Raise):
            return False
        if isinstance(last, ast.If):
            return falls(last.body) or falls(last.orelse)
        return True
    return falls(h.body)


def rule_unchecked_escape(ctx: Ctx, rep: Report) -> None:
    """C07.unchecked_escape: the private builders make keys with
    `check_validity=False` ("not checked yet"); no public function of the module
    hands one back without `assert_valid()` (or an encoding that validates) in
    between -- else BIP32's "this key is invalid" cases (left half 0 or >= n
    at the master, a version that is not a private one) come back as keys."""
    rule = "C07.unchecked_escape"
    mi = ctx.module(B)
    funcs = [f for f in mi.functions.values() if f.parent is None]
    tainted: dict[str, str] = {}

    def validated(fi, name: str, ret: ast.Return) -> bool:
        g = ctx.cfg(fi)
        marks = []
        for n in own_nodes(fi.node):
            if isinstance(n, ast.Call) and isinstance(n.func, ast.Attribute) and n.func.attr == "assert_valid" and norm(n.func.value) == name and ctx.unconditional(g, n):
                marks += g.nodes_containing(n)
            # for key in <name>: key.assert_valid()
            if isinstance(n, ast.For) and norm(n.iter) == name and isinstance(n.target, ast.Name):
                if any(isinstance(st, ast.Expr) and isinstance(st.value, ast.Call) and norm(st.value.func) == f"{n.target.id}.assert_valid" for st in n.body):
                    marks += [x.id for x in g.nodes if x.stmt is n or x.ast is n.iter or x.ast is n]
        if not marks:
            return False
        return g.path_avoiding(g.nodes_containing(ret), marks) is None

    def expr_taint(fi, e: ast.AST, ret: ast.Return, depth: int = 0) -> str | None:
        if depth > 4:
            return None
        if isinstance(e, ast.Call):
            if call_name(e) == "BIP32KeyData" and any(k.arg == "check_validity" and isinstance(k.value, ast.Constant) and k.value.value is False for k in e.keywords):
                return f"BIP32KeyData(check_validity=False) @{fi.where(e)}"
            q = ctx.resolve_call(fi, e)
            if q in tainted:
                return f"{q.rsplit('.', 1)[1]}() <- {tainted[q]}"
            return None
        if isinstance(e, (ast.List, ast.Tuple)):
            for x in e.elts:
                t = expr_taint(fi, x, ret, depth + 1)
                if t:
                    return t
            return None
        if isinstance(e, ast.ListComp):
            return expr_taint(fi, e.elt, ret, depth + 1)
        if isinstance(e, ast.Name):
            if e.id in fi.params():
                return None
            for a in own_nodes(fi.node):
                if isinstance(a, (ast.Assign, ast.AnnAssign)) and a.value is not None and any(norm(t) == e.id for t in (a.targets if isinstance(a, ast.Assign) else [a.target])):
                    t = expr_taint(fi, a.value, ret, depth + 1)
                    if t and not validated(fi, e.id, ret):
                        return t
                # x.append(tainted)
                if isinstance(a, ast.Call) and isinstance(a.func, ast.Attribute) and a.func.attr in ("append", "extend") and norm(a.func.value) == e.id and a.args:
                    t = expr_taint(fi, a.args[0], ret, depth + 1)
                    if t and not validated(fi, e.id, ret):
                        return t
            return None
        return None

    changed = True
    while changed:
        changed = False
        for fi in funcs:
            if fi.qualname in tainted:
                continue
            for r in own_nodes(fi.node):
                if isinstance(r, ast.Return) and r.value is not None:
                    t = expr_taint(fi, r.value, r)
                    if t:
                        tainted[fi.qualname] = t
                        changed = True
                        break
    n = 0
    for fi in sorted(funcs, key=lambda f: f.qualname):
        local = fi.qualname[len(B) + 1:]
        if local.startswith("_") or "." in local:
            continue
        ann = norm(fi.node.returns) if fi.node.returns is not None else ""
        if "BIP32KeyData" not in ann:
            continue
        n += 1
        t = tainted.get(fi.qualname)
        rep.ob(rule, local, t is None, fi.where(), "every key handed back was validated after it was built" if t is None else
               f"hands back a key nobody validated: {t}")
    rep.ob(rule, "builders_unchecked", len(tainted) >= 3, mi.relpath + ":1", f"private builders that return unchecked keys: {sorted(q.rsplit('.', 1)[1] for q in tainted)}")
    rep.floor(rule, 5)


def rule_hmac_shape(ctx: Ctx, rep: Report) -> None:
    """C07.hmac_shape: what enters HMAC-SHA512 at each step."""
    rule = "C07.hmac_shape"
    pd = ctx.func(f"{B}.__prv_key_derivation")
    xb = [n for n in own_nodes(pd.node) if isinstance(n, ast.Assign) and isinstance(n.value, ast.IfExp) and isinstance(n.targets[0], ast.Name)]
    ok = bool(xb) and isinstance(xb[0].value, ast.IfExp) and norm(xb[0].value.test) == "index >= _HARDENED_OFFSET" and norm(xb[0].value.body) == "xkey.key" \
        and "bytes_from_prv_key_int(xkey.prv_key_int)" in norm(xb[0].value.orelse)
    rep.ob(rule, "prv:data", ok, pd.where(), "hardened: 0x00||k ; normal: the compressed public key")
    for q in (f"{B}.__prv_key_derivation", f"{B}._pub_key_offset"):
        fi = ctx.func(q)
        a = ints(write_atoms(ctx, fi))
        idx = [x for x in a if x.subject == "index"]
        rep.ob(rule, f"{fi.name}:index_ser32", bool(idx) and (idx[0].width, idx[0].endian, idx[0].signed) == (4, "big", False), fi.where(), f"{[x.show() for x in idx]}")
        h = [c for c in own_nodes(fi.node) if isinstance(c, ast.Call) and norm(c.func) == "hmac.new"]
        okh = bool(h) and len(h[0].args) == 3 and ctx.fold(h[0].args[2], fi.module) == "sha512" and "chain_code" in norm(h[0].args[0])
        rep.ob(rule, f"{fi.name}:hmac_sha512_keyed_by_chain_code", okh, fi.where(), f"{norm(h[0]) if h else None}")
    cc = [n for n in own_nodes(pd.node) if isinstance(n, ast.Assign) and norm(n.targets[0]) == "xkey.chain_code"]
    rep.ob(rule, "prv:chain_code_is_right_half", bool(cc) and norm(cc[0].value) == "hmac_[32:]", pd.where(), "child chain code = right 32 bytes")
    po = ctx.func(f"{B}._pub_key_offset")
    rets = [n for n in own_nodes(po.node) if isinstance(n, ast.Return)]
    rep.ob(rule, "pub:returns_left_right", bool(rets) and norm(rets[0].value) in ("(offset, hmac_[32:])",), po.where(), f"{norm(rets[0].value) if rets else None}")
    rs = ctx.func(f"{B}._rootxprv_from_seed")
    h = [c for c in own_nodes(rs.node) if isinstance(c, ast.Call) and norm(c.func) == "hmac.new"]
    rep.ob(rule, "root:key", bool(h) and ctx.fold(h[0].args[0], rs.module) == b"Bitcoin seed" and ctx.fold(h[0].args[2], rs.module) == "sha512", rs.where(), "HMAC-SHA512 keyed by 'Bitcoin seed'")


def rule_ranges(ctx: Ctx, rep: Report) -> None:
    """C07.ranges: seed, depth, index and size bounds."""
    rule = "C07.ranges"
    rs = ctx.func(f"{B}._rootxprv_from_seed")
    cs = refusal_constraints(ctx, rs)
    rep.ob(rule, "seed_bits", has_bound(cs, "<", 128, subject="bit_length") is not None and has_bound(cs, ">", 512, subject="bit_length") is not None, rs.where(), "128 <= seed bits <= 512")
    d = ctx.func(f"{B}._derive")
    mf: dict[str, str] = {}
    fd = PT.find(d.node, "$fd = xkey.depth + len($idx)", mf) or PT.find(d.node, "$fd = len($idx) + xkey.depth", mf)
    rep.ob(rule, "final_depth:def", fd is not None, d.where(fd), "final depth = the key's depth + the number of steps")
    rep.ob(rule, "final_depth", has_bound(refusal_constraints(ctx, d), ">", 255, subject=mf.get("fd", "final_depth")) is not None, d.where(), "final depth > 255 refused")
    v = ctx.func(f"{B}._assert_valid_depth_and_index")
    cv = refusal_constraints(ctx, v)
    rep.ob(rule, "index_u32", has_bound(cv, "<", 0, subject="index") is not None and has_bound(cv, ">", 0xFFFFFFFF, subject="index") is not None, v.where(), "0 <= index <= 2^32-1")
    rep.ob(rule, "depth_u8", has_bound(cv, "<", 0, subject="depth") is not None and has_bound(cv, ">", 255, subject="depth") is not None, v.where(), "0 <= depth <= 255")
    rep.ob(rule, "root_shape", any(c.subject == "parent_fingerprint" and c.op == "!=" for c in cv) and any(c.subject == "index" and c.op == "!=" and c.value == 0 for c in cv), v.where(), "depth 0 has zero fingerprint and index")
    di = ctx.func(f"{DP}._assert_valid_index")
    ci = refusal_constraints(ctx, di)
    rep.ob(rule, "der_path:index_u32", has_bound(ci, "<", 0, subject="i") is not None and has_bound(ci, ">", 0xFFFFFFFF, subject="i") is not None, di.where(), "path step in [0, 2^32-1]")
    ds = ctx.func(f"{DP}._index_and_hardening_from_str")
    cs2 = refusal_constraints(ctx, ds)
    rep.ob(rule, "der_path:text_index_below_2^31", has_bound(cs2, "<", 0, subject="index") is not None and has_bound(cs2, ">=", 2**31, subject="index") is not None, ds.where(), "a textual index is below 2^31 before hardening")
    ks = ctx.const(B, "_KEY_SIZE")
    rl = ctx.const(B, "_REQUIRED_LENGTH")
    ok = isinstance(ks, list) and [tuple(x) for x in ks] == [("version", 4), ("parent_fingerprint", 4), ("chain_code", 32), ("key", 33)] and rl == 78
    rep.ob(rule, "xkey_sizes", ok and sum(x[1] for x in ks) + 1 + 4 == rl, "btclib/bip32/bip32.py:1", f"field sizes {ks}, total {rl}")


def rule_fingerprint_order(ctx: Ctx, rep: Report) -> None:
    """C07.fingerprint_order: the parent fingerprint is that of the key before the last step."""
    rule = "C07.fingerprint_order"
    for q, step in ((f"{B}.__prv_key_path_derivation", "__prv_key_derivation"), (f"{B}.__pub_key_path_derivation", "__pub_key_derivation")):
        fi = ctx.func(q)
        loops = [n for n in fi.node.body if isinstance(n, ast.For)]
        st = [n for n in fi.node.body if isinstance(n, ast.Assign) and norm(n.targets[0]) == "xkey.parent_fingerprint"]
        last = [n for n in fi.node.body if isinstance(n, ast.Expr) and isinstance(n.value, ast.Call) and call_name(n.value) == step and "indexes[-1]" in norm(n.value)]
        ok = bool(loops) and bool(st) and bool(last) and norm(loops[0].iter) == "indexes[:-1]" and loops[0].lineno < st[0].lineno < last[0].lineno \
            and norm(st[0].value).startswith("hash160(") and norm(st[0].value).endswith(")[:4]")
        rep.ob(rule, fi.name, ok, fi.where(), "walk indexes[:-1]; fingerprint = hash160(parent key)[:4]; then the last step")
    d = ctx.func(f"{B}._derive")
    ix = [n for n in own_nodes(d.node) if isinstance(n, ast.Assign) and norm(n.targets[0]) == "working.index"]
    rep.ob(rule, "_derive:index_is_last_step", bool(ix) and norm(ix[0].value) == "indexes[-1]", d.where(), "child index = the last step")


def rule_neuter(ctx: Ctx, rep: Report) -> None:
    """C07.neuter: xpub_from_xprv keeps depth, index, fingerprint and chain code."""
    rule = "C07.neuter"
    fi = ctx.func(f"{B}._xpub_from_xprv")
    calls = [c for c in own_nodes(fi.node) if isinstance(c, ast.Call) and call_name(c) in ("BIP32KeyData", "cls")]
    ok = False
    detail = "constructor call not found"
    if calls:
        kw = {k.arg: norm(k.value) for k in calls[0].keywords}
        detail = str(kw)
        ok = all(kw.get(f) == f"xprv.{f}" for f in ("depth", "parent_fingerprint", "index", "chain_code"))
    rep.ob(rule, "fields_kept", ok, fi.where(), detail)
    cs = refusal_constraints(ctx, fi)
    rep.ob(rule, "private_only", any(c.subject == "xprv.key[0]" and c.op == "!=" and c.value == 0 for c in cs), fi.where(), "a key whose first byte is not 0x00 is refused")
    kw2 = {k.arg: norm(k.value) for k in calls[0].keywords} if calls else {}
    rep.ob(rule, "version_mapped", kw2.get("version", "").startswith("xpubversion_from_xprvversion("), fi.where(), f"version = {kw2.get('version')}")


def rule_own_fields(ctx: Ctx, rep: Report) -> None:
    """C07.own_fields: an object hands its own fields to the functions it delegates to (see sigcommon.rule_own_fields_forwarded)."""
    from rules.sigcommon import rule_own_fields_forwarded
    rule_own_fields_forwarded(ctx, rep, "C07.own_fields", ('btclib.bip32.bip32',), 3)


def rule_params_forwarded_(ctx: Ctx, rep: Report) -> None:
    """C07.params_forwarded: a parameter is handed on to callees that have a parameter of the same name (see sigcommon.rule_params_forwarded)."""
    from rules.sigcommon import rule_params_forwarded
    rule_params_forwarded(ctx, rep, "C07.params_forwarded", ('btclib.bip32',), 40)


def rule_no_inplace_growth_(ctx: Ctx, rep: Report) -> None:
    """C07.no_inplace_growth: a local that starts as a parameter (or a field of one) is never grown with `+=` (see sigcommon.rule_no_inplace_growth)."""
    from rules.sigcommon import rule_no_inplace_growth
    rule_no_inplace_growth(ctx, rep, "C07.no_inplace_growth", ('btclib.bip32',), 1)


def rule_key_layout(ctx: Ctx, rep: Report) -> None:
    """C07.key_layout: the 78 bytes of an extended key are read as they are
    written: depth as one unsigned byte (keys at depth 128..255 are keys), the
    index as four bytes big-endian unsigned (C05's layout comparison, for
    BIP32KeyData)."""
    from rules import C05
    from sa.layout import read_atoms as ra, write_atoms as wa
    ci = ctx.cls(f"{B}.BIP32KeyData")
    tmp = Report("C05", rep.tier)
    tmp.quiet = True
    C05._cmp_int_atoms(tmp, "C07.key_layout", "BIP32KeyData", ci.methods["serialize"], ci.methods["parse"], wa(ctx, ci.methods["serialize"]), ra(ctx, ci.methods["parse"]))
    for o in tmp.obs:
        rep.ob("C07.key_layout", o.instance, o.held, o.site, o.detail)
    for u in tmp.inconclusive:
        rep.unknown("C07.key_layout", u["instance"], u["site"], u["why"])
    par = ci.methods["parse"]
    depth_reads = [x for x in own_nodes(par.node) if isinstance(x, ast.keyword) and x.arg == "depth"]
    for k in depth_reads:
        ok = isinstance(k.value, ast.Subscript) and not isinstance(k.value.slice, ast.Slice)
        rep.ob("C07.key_layout", "parse:depth_is_one_unsigned_byte", ok, par.where(k.value), "depth = key_bin[4]: a byte, 0..255" if ok else f"depth is read as `{norm(k.value)}`")
    rep.floor("C07.key_layout", 1)


def rule_no_stale_cache_(ctx: Ctx, rep: Report) -> None:
    """C07.no_stale_cache: a memoized mutable answer is never handed out or edited; a cached_property lives only in a frozen dataclass (see sigcommon.rule_no_stale_cache)."""
    from rules.sigcommon import rule_no_stale_cache
    rule_no_stale_cache(ctx, rep, "C07.no_stale_cache", ('btclib.bip32',), 1)


def rule_single_pass_(ctx: Ctx, rep: Report) -> None:
    """C07.single_pass: a parameter admitted as an Iterable is walked at most once per path (see sigcommon.rule_single_pass)."""
    from rules.sigcommon import rule_single_pass
    rule_single_pass(ctx, rep, "C07.single_pass", ('btclib.bip32',), 1)


def rule_path_is_walked_as_stated(ctx: Ctx, rep: Report) -> None:
    """C07.path_is_walked_as_stated: derive(key, path) applies the path's indexes to
    the key, all of them, in order -- that is what makes one call equal to any
    split of it. In `_derive` the list `indexes_from_der_path` answered is what
    the loop walks: the local is bound once and never re-bound to a part of
    itself (a "the key is already partway down this path" short cut makes
    derive(xpub_at_depth_3, "m/44h/0h/0h/0/5") skip the first three steps when
    the third index happens to match). And a path spelled as bytes is a
    sequence of 4-byte indexes: nothing in the der_path module decodes a bytes
    path as text."""
    rule = "C07.path_is_walked_as_stated"
    fi = ctx.func("btclib.bip32.bip32._derive")
    binds = [a for a in own_nodes(fi.node) if isinstance(a, ast.Assign) and isinstance(a.targets[0], ast.Name) and isinstance(a.value, ast.Call) and call_name(a.value) == "indexes_from_der_path"]
    if len(binds) != 1:
        rep.unknown(rule, "_derive:indexes", fi.where(), f"{len(binds)} bindings of the path's indexes")
    else:
        nm = binds[0].targets[0].id
        again = [a for a in own_nodes(fi.node) if isinstance(a, (ast.Assign, ast.AugAssign)) and a is not binds[0] and any(isinstance(t, ast.Name) and t.id == nm for t in (a.targets if isinstance(a, ast.Assign) else [a.target]))]
        rep.ob(rule, "_derive:indexes_bound_once", not again, fi.where(again[0] if again else binds[0]), "what the path says is what is walked" if not again else
               f"`{norm(again[0])[:70]}` re-binds the indexes of the path after they were read: some of the steps the caller wrote are not taken")
        used = [x for x in own_nodes(fi.node) if isinstance(x, ast.Name) and x.id == nm and isinstance(x.ctx, ast.Load)]
        rep.ob(rule, "_derive:walks_them", bool(used), fi.where(), f"the indexes are read {len(used)} times after they were bound")
    for q, f2 in sorted(ctx.prog.functions.items()):
        if not q.startswith("btclib.bip32.der_path."):
            continue
        a_ = f2.node.args
        dp = {p_.arg for p_ in a_.posonlyargs + a_.args if p_.arg == "der_path" or (p_.annotation is not None and "DerPath" in str(norm(p_.annotation)))}
        for c in own_nodes(f2.node):
            if isinstance(c, ast.Call) and isinstance(c.func, ast.Attribute) and c.func.attr == "decode" and {x.id for x in ast.walk(c.func.value) if isinstance(x, ast.Name)} & dp:
                rep.ob(rule, f"{q}:bytes_are_indexes", False, f2.where(c), f"`{norm(c)[:60]}` reads a bytes path as text: b\"m/0h\" is the four bytes of one index, and becomes another path")
    rep.floor(rule, 2)


def rule_hashable_membership_(ctx: Ctx, rep: Report) -> None:
    """C07.hashable_membership: no prefix test hashes a slice of octets that may be a bytearray (see sigcommon.rule_hashable_membership)."""
    from rules.sigcommon import rule_hashable_membership
    rule_hashable_membership(ctx, rep, "C07.hashable_membership", ('btclib.bip32',))


def rule_fingerprint_is_a_hash(ctx: Ctx, rep: Report) -> None:
    """C07.fingerprint_is_a_hash: BIP32's fingerprint of a key is the first four
    bytes of HASH160 of its (neutered) public key, defined for every valid key.
    `fingerprint` computes it that way -- it calls `hash160` and does not go
    through a derivation: read off a derived child instead, it is undefined
    where a key has no child (depth 255) and an exception there, for a key
    whose fingerprint BIP32 defines like any other."""
    rule = "C07.fingerprint_is_a_hash"
    fi = ctx.func("btclib.bip32.bip32.fingerprint")
    names = {call_name(c) for c in own_nodes(fi.node) if isinstance(c, ast.Call)}
    rep.ob(rule, "fingerprint:hash160", "hash160" in names, fi.where(), "HASH160 of the key's octets" if "hash160" in names else f"`fingerprint` does not hash the key (it calls {sorted(names)})")
    der = sorted(n_ for n_ in names if "derive" in n_.lower() or n_ in ("_ckd", "ckd"))
    rep.ob(rule, "fingerprint:no_derivation", not der, fi.where(), "no derivation on the way" if not der else f"`fingerprint` goes through {der}: a key that has no child (depth 255) has no fingerprint")
    rep.floor(rule, 2)


_TEXT_PATH_SAMPLE = """
def _derive_from_account(mxkey, branch, address_index):
    return _derive(mxkey, f"m/{branch}/{address_index}", None)
"""


def _formatted_paths(fn: ast.AST) -> list[ast.Call]:
    out = []
    for c in own_nodes(fn):
        if isinstance(c, ast.Call) and call_name(c) in ("_derive", "derive_", "derive", "derive_from_account_", "_derive_from_account") and len(c.args) >= 2:
            p_ = c.args[1]
            if (isinstance(p_, ast.JoinedStr) and any(isinstance(v, ast.FormattedValue) for v in p_.values)) or \
                    (isinstance(p_, ast.BinOp) and isinstance(p_.op, ast.Mod) and isinstance(p_.left, ast.Constant) and isinstance(p_.left.value, str)) or \
                    (isinstance(p_, ast.Call) and isinstance(p_.func, ast.Attribute) and p_.func.attr == "format"):
                out.append(c)
    return out


def rule_steps_are_numbers_not_text(ctx: Ctx, rep: Report) -> None:
    """C07.steps_are_numbers_not_text: a derivation step the library computes or is
    handed as a number goes to the deriving function as a number -- a list
    of indexes, which its reader holds to integers. Formatted into a text
    path and parsed back, whatever prints with a slash, a quote or an `h` in
    it (`Fraction(7, 2)` is "7/2") is other steps than the caller gave."""
    from sa.loader import _set_parents
    rule = "C07.steps_are_numbers_not_text"
    sample = ast.parse(_TEXT_PATH_SAMPLE)
    _set_parents(sample)
    rep.ob(rule, "selftest:sample", len(_formatted_paths(sample.body[0])) == 1, "rules/C07.py:1", "the detector fires on its own sample (expected count on the tree is zero)")
    n = 0
    for q, fi in sorted(ctx.prog.functions.items()):
        if not q.startswith(("btclib.bip32.", "btclib.wallet.", "btclib.bip44", "btclib.descriptors.")):
            continue
        n += 1
        for c in _formatted_paths(fi.node):
            rep.ob(rule, f"{q}:{norm(c.args[1])[:40]}", False, fi.where(c), f"`{norm(c)[:70]}` prints numbers into a path for the parser to read back: a value that prints with a separator in it is derived as other steps")
    rep.ob(rule, "scanned", True, "btclib:1", f"{n} functions")
    rep.floor(rule, 2)


RULES = [
    ("C07.steps_are_numbers_not_text", rule_steps_are_numbers_not_text),

    ("C07.fingerprint_is_a_hash", rule_fingerprint_is_a_hash),

    ("C07.hashable_membership", rule_hashable_membership_),

    ("C07.path_is_walked_as_stated", rule_path_is_walked_as_stated),

    ("C07.no_stale_cache", rule_no_stale_cache_),
    ("C07.single_pass", rule_single_pass_),

    ("C07.key_layout", rule_key_layout),
    ("C07.no_inplace_growth", rule_no_inplace_growth_),
    ("C07.params_forwarded", rule_params_forwarded_),
    ("C07.own_fields", rule_own_fields),
    ("C07.hardened_pub", rule_hardened_pub),
    ("C07.invalid_child", rule_invalid_child),
    ("C07.no_skip", rule_no_skip),
    ("C07.unchecked_escape", rule_unchecked_escape),
    ("C07.hmac_shape", rule_hmac_shape),
    ("C07.ranges", rule_ranges),
    ("C07.fingerprint_order", rule_fingerprint_order),
    ("C07.neuter", rule_neuter),
]

CONTROLS = [
    {"rule": "C07.no_stale_cache", "name": "the parsed path is memoized and handed out", "module": "btclib.bip32.der_path",
     "edit": lambda ctx: M.sub_module_expr(ctx, "btclib.bip32.der_path", lambda n: isinstance(n, ast.FunctionDef) and n.name == "_pairs_from_der_path_str",
                                           lambda n: "@__import__('functools').lru_cache(maxsize=64)\n" + ast.unparse(n))},
    {"rule": "C07.single_pass", "name": "the path is checked in one walk and copied in another", "module": "btclib.bip32.der_path",
     "edit": lambda ctx: M.sub_expr(ctx, "btclib.bip32.der_path._indexes_from_der_path", lambda n: isinstance(n, ast.For), lambda n: norm(n).replace(norm(n.iter), "der_path", 1))},

    {"rule": "C07.no_inplace_growth", "name": "the HMAC data is the key itself, grown in place (F20)", "module": B,
     "edit": lambda ctx: M.sub_expr(ctx, f"{B}.__prv_key_derivation", lambda n: isinstance(n, ast.Assign) and norm(n.targets[0]) == "xb" and isinstance(n.value, ast.BinOp),
                                    "xb += index.to_bytes(4, byteorder='big', signed=False)")},
    {"rule": "C07.no_skip", "name": "a refused address index is skipped", "module": B,
     "edit": lambda ctx: M.sub_expr(ctx, f"{B}.derive_from_account_range_", lambda n: isinstance(n, ast.Assign) and isinstance(n.value, ast.ListComp) and "_derive" in norm(n.value),
                                    "derived = []\n    for index in address_indexes:\n        try:\n            derived.append(_derive(branch_key, f'm/{index}', None))\n        except BTClibValueError:\n            continue")},
    {"rule": "C07.unchecked_escape", "name": "derive_ hands back the unchecked key", "module": B,
     "edit": lambda ctx: M.drop_call_stmt(ctx, f"{B}.derive_", "assert_valid")},
    {"rule": "C07.hardened_pub", "name": "only the first index is checked for hardening", "module": B,
     "edit": lambda ctx: M.sub_expr(ctx, f"{B}.__pub_key_path_derivation", lambda n: isinstance(n, ast.Call) and call_name(n) == "any", "indexes[0] >= _HARDENED_OFFSET")},
    {"rule": "C07.invalid_child", "name": "left half compared with > n", "module": B,
     "edit": lambda ctx: M.sub_expr(ctx, f"{B}._pub_key_offset", M.is_text("offset >= _N_BYTES"), "offset > _N_BYTES")},
    {"rule": "C07.invalid_child", "name": "zero child key accepted on the python arm", "module": B,
     "edit": lambda ctx: M.drop_if(ctx, f"{B}.__prv_key_derivation", lambda n: norm(n.test) == "prv_key_int == 0")},
    {"rule": "C07.hmac_shape", "name": "index serialized little-endian", "module": B,
     "edit": lambda ctx: M.sub_expr(ctx, f"{B}._pub_key_offset", lambda n: isinstance(n, ast.Constant) and n.value == "big", '"little"')},
    {"rule": "C07.ranges", "name": "depth 256 accepted", "module": B,
     "edit": lambda ctx: M.sub_expr(ctx, f"{B}._derive", M.is_text("final_depth > 255"), "final_depth > 256")},
    {"rule": "C07.fingerprint_order", "name": "fingerprint taken after the last step", "module": B,
     "edit": lambda ctx: _swap_fp(ctx)},
]


def _swap_fp(ctx: Ctx):
    fi = ctx.prog.functions.get(f"{B}.__pub_key_path_derivation")
    if fi is None:
        return None
    st = [n for n in fi.node.body if isinstance(n, ast.Assign) and norm(n.targets[0]) == "xkey.parent_fingerprint"]
    last = [n for n in fi.node.body if isinstance(n, ast.Expr) and "indexes[-1]" in norm(n)]
    if not st or not last:
        return None
    src = fi.module.source
    a, b = ast.get_source_segment(src, st[0]), ast.get_source_segment(src, last[0])
    return M.replace_nodes(src, [(st[0], b), (last[0], a)])
