"""C09 -- signature hashes equal the legacy, BIP143 and BIP341 definitions.

Digest bytes are not decided. Decided: the *preimage layout* of taproot() and
segwit_v0() for every hash type (finite case split by constant propagation of
the hash type through the branch conditions) against spec sequences; widths /
endianness / signedness of the field helpers; same-source of the precomputed
hashes; the legacy algorithm's structural rows; the refusals the BIPs demand;
that every sighash entry point reaches the one implementation.
"""

from __future__ import annotations

import ast
from typing import Any

from sa import mutate as M
from sa.casesplit import Inconclusive, Refused, run_case, subst_ifexp
from sa.consts import UNKNOWN
from sa import pattern as PT
from sa.ctx import Ctx
from sa.layout import ints, write_atoms
from sa.loader import AnalysisError, FuncInfo, call_name, norm, own_nodes, parent
from sa.ranges import has, has_bound, refusal_constraints
from sa.report import Report
from specs import sighash as SPEC

NOTES = ("C09: decides the preimage layout of taproot (7 hash types x annex) and segwit_v0 (12 hash types x SINGLE in/out "
         "of range) against BIP341/BIP143, helper field widths, same-source of precomputed hashes, legacy structural rows, "
         "refusals and single implementation; hashing and field values are not decided.")

SH = "btclib.script.sig_hash"
ALIAS_ATTR = {"nVersion": "version", "nLockTime": "lock_time", "nSequence": "sequence"}


class Canon:
    def __init__(self, ctx: Ctx, fi: FuncInfo, roles: dict[str, str]):
        self.ctx, self.fi, self.roles = ctx, fi, dict(roles)
        self.locals: dict[str, ast.AST] = {}
        for n in own_nodes(fi.node):
            if isinstance(n, ast.Assign) and len(n.targets) == 1 and isinstance(n.targets[0], ast.Name):
                nm = n.targets[0].id
                if nm in self.locals:
                    self.locals[nm] = None  # type: ignore[assignment]
                else:
                    self.locals[nm] = n.value
        self.pre_cls = ctx.cls(f"{SH}.PrecomputedTxData")

    def c(self, e: ast.AST, depth: int = 0) -> str:
        ctx = self.ctx
        if depth > 12:
            return "?"
        if isinstance(e, ast.Constant):
            if isinstance(e.value, bytes):
                return f"CONST({e.value.hex()})"
            return repr(e.value)
        v = ctx.fold(e, self.fi.module)
        if isinstance(v, bytes) and len(v) == 32 and not any(v):
            return "ZERO32"
        if isinstance(e, ast.Name):
            if e.id in self.roles:
                return self.roles[e.id]
            d = self.locals.get(e.id)
            if d is not None:
                return self.c(d, depth + 1)
            return e.id
        if isinstance(e, ast.Attribute):
            base = self.c(e.value, depth + 1)
            attr = ALIAS_ATTR.get(e.attr, e.attr)
            if base == "PRE":
                return self._precomputed(attr, depth)
            if attr == "script" and base.endswith(".script_pub_key"):
                return base[: -len(".script_pub_key")] + ".script"
            return f"{base}.{attr}"
        if isinstance(e, ast.Subscript):
            return f"{self.c(e.value, depth + 1)}[{self.c(e.slice, depth + 1)}]"
        if isinstance(e, ast.Call):
            nm = call_name(e)
            tgt = ctx.resolve_call(self.fi, e) or ""
            if nm == "bytes_from_octets" and e.args:
                return self.c(e.args[0], depth + 1)
            if nm == "to_bytes" and isinstance(e.func, ast.Attribute):
                a = write_atoms(ctx, _wrap(self.fi, e))
                at = a[0] if a else None
                w = ctx.fold(e.args[0], self.fi.module) if e.args else "?"
                order = ctx.fold(e.args[1], self.fi.module) if len(e.args) > 1 else next((ctx.fold(k.value, self.fi.module) for k in e.keywords if k.arg == "byteorder"), "big")
                signed = next((ctx.fold(k.value, self.fi.module) for k in e.keywords if k.arg == "signed"), False)
                return f"INT({w},{order},{'s' if signed else 'u'}):{self.c(e.func.value, depth + 1)}"
            if nm == "sha256":
                return f"sha256({self.c(e.args[0], depth + 1)})"
            if nm == "hash256":
                return f"sha256(sha256({self.c(e.args[0], depth + 1)}))"
            if tgt == "btclib.var_bytes.serialize":
                return f"var_bytes:{self.c(e.args[0], depth + 1)}"
            if tgt == f"{SH}._serialized_4_byte_field" and len(e.args) == 2:
                lit = ctx.fold(e.args[0], self.fi.module)
                val = self.c(e.args[1], depth + 1)
                expect = {"version": "TX.version", "lock time": "TX.lock_time"}.get(lit)
                if expect is not None:
                    return f"u32le:{lit}" if val == expect else f"u32le:{lit}<-{val}"
                if lit == "sequence" and val.endswith(".sequence"):
                    return f"u32le:sequence:{val[: -len('.sequence')]}"
                return f"u32le:{lit}<-{val}"
            if tgt == f"{SH}._serialized_camount" and e.args:
                return f"i64le:{self.c(e.args[0], depth + 1)}"
            if tgt == f"{SH}._serialized_out_point" and e.args:
                v0 = self.c(e.args[0], depth + 1)
                return f"outpoint:{v0[: -len('.prev_out')]}" if v0.endswith(".prev_out") else f"outpoint<-{v0}"
            if tgt == f"{SH}._serialized_output" and e.args:
                return f"output:{self.c(e.args[0], depth + 1)}"
            if tgt == f"{SH}._serialized_spend_type":
                a0 = self.c(e.args[0], depth + 1) if e.args else "?"
                a1 = self.c(e.args[1], depth + 1) if len(e.args) > 1 else "?"
                return "spend_type" if a0 == "EXTFLAG" and a1 in ("int(bool(ANNEX))", "annex_present") else f"spend_type<-{a0},{a1}"
            if tgt == f"{SH}._serialized_hash_type" and e.args:
                return "hash_type:4le" if self.c(e.args[0], depth + 1) == "HT" else f"hash_type<-{self.c(e.args[0], depth + 1)}"
            if tgt.startswith(f"{SH}._serialized_") and e.args:
                arg = self.c(e.args[0], depth + 1)
                want = {"prevouts": "TX", "sequences": "TX", "outputs": "TX", "amounts": "PREVOUTS", "script_pub_keys": "PREVOUTS"}.get(tgt.rsplit("_serialized_", 1)[1])
                base = tgt.rsplit(".", 1)[1].lstrip("_")
                return base if arg == want else f"{base}<-{arg}"
            return f"{nm}({','.join(self.c(a, depth + 1) for a in e.args)})"
        if isinstance(e, ast.BinOp) and isinstance(e.op, ast.Add):
            return f"{self.c(e.left, depth + 1)}+{self.c(e.right, depth + 1)}"
        return norm(e)

    def _precomputed(self, attr: str, depth: int) -> str:
        ci = self.pre_cls
        init = ci.methods["__init__"]
        sub = Canon(self.ctx, init, {init.params()[1]: "TX", init.params()[2]: "PREVOUTS", "self": "PRE"})
        if attr in ci.methods and any(d == "property" for d in ci.methods[attr].decorators()):
            m = ci.methods[attr]
            rets = [n for n in own_nodes(m.node) if isinstance(n, ast.Return)]
            if len(rets) != 1:
                return f"PRE.{attr}?"
            sub2 = Canon(self.ctx, m, {"self": "PRE"})
            return sub2.c(rets[0].value, depth + 1)
        for n in own_nodes(init.node):
            if isinstance(n, ast.Call) and norm(n.func) == "object.__setattr__" and len(n.args) == 3 and isinstance(n.args[1], ast.Constant) and n.args[1].value == attr:
                return sub.c(n.args[2], depth + 1)
        return f"PRE.{attr}?"


def _wrap(fi: FuncInfo, e: ast.AST) -> FuncInfo:
    """A FuncInfo whose body is one expression (to reuse write_atoms)."""
    fn = ast.FunctionDef(name="_x", args=fi.node.args, body=[ast.Expr(value=e)], decorator_list=[], lineno=1, col_offset=0)
    return FuncInfo(fi.qualname + "._x", fi.module, fn)


def _roles(fi: FuncInfo, labels: list[str]) -> dict[str, str]:
    ps = fi.params()
    if len(ps) < len(labels):
        raise AnalysisError(f"{fi.qualname}: parameters changed: {ps}")
    return dict(zip(ps, labels))


def rule_bip341(ctx: Ctx, rep: Report) -> None:
    """C09.bip341: taproot()'s message layout for each of the 7 hash types x annex."""
    rule = "C09.bip341"
    fi = ctx.func(f"{SH}.taproot")
    roles = _roles(fi, ["TX", "IDX", "PREVOUTS", "HT", "EXTFLAG", "ANNEX", "EXT", "PRE"])
    ht_name = fi.params()[3]
    annex_name = fi.params()[5]
    sht = ctx.const(SH, "SIG_HASH_TYPES")
    rep.ob(rule, "SIG_HASH_TYPES", sht == SPEC.TAPROOT_HASH_TYPES, fi.where(), f"{sorted(sht) if isinstance(sht, frozenset) else sht}")
    tracked = None
    for n in own_nodes(fi.node):
        if isinstance(n, ast.Return) and isinstance(n.value, ast.Call) and call_name(n.value) == "tagged_hash":
            tag = ctx.fold(n.value.args[0], fi.module)
            rep.ob(rule, "tag", tag == b"TapSighash", fi.where(n), f"tagged_hash tag {tag!r}")
            j = n.value.args[1]
            if isinstance(j, ast.Call) and call_name(j) == "join" and j.args and isinstance(j.args[0], ast.Name):
                tracked = j.args[0].id
    if tracked is None:
        raise AnalysisError("taproot(): return tagged_hash(tag, b''.join(<list>)) not found")
    for ht in sorted(SPEC.TAPROOT_HASH_TYPES):
        for annex in (False, True):
            env = {ht_name: ht, annex_name: b"\x50" if annex else b""}
            key = f"hash_type={ht:#04x},annex={int(annex)}"
            try:
                sym = run_case(ctx, fi, env, {tracked})
            except Refused as r:
                rep.ob(rule, key, False, fi.where(r.node), "a valid hash type is refused")
                continue
            except Inconclusive as e:
                rep.unknown(rule, key, fi.where(), str(e))
                continue
            cn = Canon(ctx, fi, roles)
            cn.locals["annex_present"] = None  # keep the name
            got = [cn.c(x) for x in sym.get(tracked, [])]
            want = SPEC.bip341(ht, annex)
            rep.ob(rule, key, got == want, fi.where(), "layout equals BIP341's" if got == want else _diff(got, want))
    rep.floor(rule, 14)


def _diff(got: list[str], want: list[str]) -> str:
    for i, (g, w) in enumerate(zip(got, want)):
        if g != w:
            return f"item {i}: code has `{g}`, the BIP has `{w}`"
    if len(got) != len(want):
        return f"{len(got)} items, the BIP has {len(want)}: extra/missing {got[len(want):] or want[len(got):]}"
    return "?"


def rule_bip143(ctx: Ctx, rep: Report) -> None:
    """C09.bip143: segwit_v0()'s ten items for each base type x ANYONECANPAY x SINGLE in/out of range."""
    rule = "C09.bip143"
    fi = ctx.func(f"{SH}.segwit_v0")
    roles = _roles(fi, ["script_code", "TX", "IDX", "HT", "amount", "PRE"])
    ht_name = fi.params()[3]
    ret = [n for n in own_nodes(fi.node) if isinstance(n, ast.Return)]
    ok = len(ret) == 1 and isinstance(ret[0].value, ast.Call) and call_name(ret[0].value) == "hash256"
    rep.ob(rule, "double_sha256", ok, fi.where(), "returns hash256(preimage)")
    # the list joined into the preimage
    joined = [n for n in own_nodes(fi.node) if isinstance(n, ast.Call) and call_name(n) == "join" and n.args and isinstance(n.args[0], (ast.List, ast.Tuple))]
    if len(joined) != 1:
        raise AnalysisError("segwit_v0(): b''.join([...]) of the ten items not found")
    items = joined[0].args[0].elts
    tracked = {x.id for x in items if isinstance(x, ast.Name)}
    for base in (0, 1, 2, 3, 4, 0x1F):
        for acp in (0, 0x80):
            for in_range in (True, False):
                ht = base | acp
                if base != 3 and not in_range:
                    continue
                key = f"hash_type={ht:#04x},single_in_range={int(in_range)}"
                env = {ht_name: ht}

                def oracle(txt: str, _r=in_range):
                    if "len(" in txt and ".vout" in txt and "<" in txt:
                        return _r
                    return None
                try:
                    sym = run_case(ctx, fi, env, set(tracked), oracle)
                except (Refused, Inconclusive) as e:
                    rep.unknown(rule, key, fi.where(), str(e))
                    continue
                cn = Canon(ctx, fi, roles)
                got = []
                for x in items:
                    e = sym.get(x.id) if isinstance(x, ast.Name) and x.id in sym else x
                    alts = {cn.c(a) for a in subst_ifexp(ctx, fi, e, env, lambda t: None)}
                    got.append(alts.pop() if len(alts) == 1 else "|".join(sorted(alts)))
                want = SPEC.bip143(ht, in_range)
                rep.ob(rule, key, got == want, fi.where(), "layout equals BIP143's" if got == want else _diff(got, want))
    rep.floor(rule, 14)


def rule_helpers(ctx: Ctx, rep: Report) -> None:
    """C09.helpers: widths/endianness/signedness of the field helpers, what the
    list helpers range over, and same-source of the precomputed hashes."""
    rule = "C09.helpers"
    for name, want in (("_serialized_4_byte_field", (4, "little", False)), ("_serialized_camount", (8, "little", True)), ("_serialized_hash_type", (4, "little", False))):
        fi = ctx.func(f"{SH}.{name}")
        a = ints(write_atoms(ctx, fi))
        ok = len(a) == 1 and (a[0].width, a[0].endian, a[0].signed) == want
        rep.ob(rule, name, ok, fi.where(), f"{[x.show() for x in a]} (spec INT{want})")
    ht = ctx.func(f"{SH}._serialized_hash_type")
    rep.ob(rule, "_serialized_hash_type:mask", any(isinstance(n, ast.BinOp) and isinstance(n.op, ast.BitAnd) and ctx.fold(n.right, ht.module) == 0xFFFFFFFF for n in own_nodes(ht.node)),
           ht.where(), "hash type written as its low four bytes")
    st = ctx.func(f"{SH}._serialized_spend_type")
    a = ints(write_atoms(ctx, st))
    ok = len(a) == 1 and a[0].width == 1 and norm(a[0].subject).replace(" ", "") in ("(2*ext_flag+annex_present)", "2*ext_flag+annex_present", "(ext_flag*2+annex_present)")
    rep.ob(rule, "_serialized_spend_type", ok, st.where(), f"spend_type = {a[0].subject if a else None}, one byte")
    for name, over, inner in (("_serialized_prevouts", ".vin", "_serialized_out_point"), ("_serialized_sequences", ".vin", "_serialized_4_byte_field"),
                              ("_serialized_outputs", ".vout", "_serialized_output"), ("_serialized_amounts", "", "_serialized_camount"),
                              ("_serialized_script_pub_keys", "", "serialize")):
        fi = ctx.func(f"{SH}.{name}")
        comps = [n for n in own_nodes(fi.node) if isinstance(n, (ast.ListComp, ast.GeneratorExp))]
        p0 = fi.params()[0]
        ok = len(comps) == 1 and norm(comps[0].generators[0].iter) == f"{p0}{over}" and not comps[0].generators[0].ifs \
            and isinstance(comps[0].elt, ast.Call) and call_name(comps[0].elt) == inner
        rep.ob(rule, name, ok, fi.where(), f"joins {inner}(...) over every element of {p0}{over}" if ok else f"unexpected shape: {norm(comps[0]) if comps else None}")
    # subjects of the per-element helpers
    checks = {"_serialized_prevouts": ".prev_out", "_serialized_sequences": ".sequence", "_serialized_amounts": ".value", "_serialized_script_pub_keys": ".script_pub_key.script"}
    for name, suffix in checks.items():
        fi = ctx.func(f"{SH}.{name}")
        comps = [n for n in own_nodes(fi.node) if isinstance(n, (ast.ListComp, ast.GeneratorExp))]
        if comps:
            args = [norm(a) for a in comps[0].elt.args]
            rep.ob(rule, f"{name}:field", any(a.endswith(suffix) for a in args), fi.where(), f"serializes each element's {suffix}: {args}")
    # same source: the precomputed fields are sha256 of the helpers the direct path uses
    init = ctx.func(f"{SH}.PrecomputedTxData.__init__")
    cn = Canon(ctx, init, {init.params()[1]: "TX", init.params()[2]: "PREVOUTS", "self": "PRE"})
    want = {"sha_prevouts": "sha256(serialized_prevouts)", "sha_amounts": "sha256(serialized_amounts)", "sha_script_pub_keys": "sha256(serialized_script_pub_keys)",
            "sha_sequences": "sha256(serialized_sequences)", "sha_outputs": "sha256(serialized_outputs)"}
    found = {}
    for n in own_nodes(init.node):
        if isinstance(n, ast.Call) and norm(n.func) == "object.__setattr__" and len(n.args) == 3 and isinstance(n.args[1], ast.Constant):
            found[n.args[1].value] = cn.c(n.args[2])
    for k, w in want.items():
        rep.ob(rule, f"precomputed.{k}", found.get(k) == w, init.where(), f"{k} = {found.get(k)}")
    rep.ob(rule, "precomputed:len_check", has(refusal_constraints(ctx, init), None, "!=", UNKNOWN, subject_contains="len(") is not None, init.where(), "len(prevouts) != len(tx.vin) refused")
    # the three places that build a tapleaf hash agree
    sites = []
    for q in ("btclib.script.taproot.leaf_hash", f"{SH}.taproot_annex_and_ext", "btclib.script.engine.tapscript.op_checksig"):
        fi = ctx.func(q)
        th = [c for c in own_nodes(fi.node) if isinstance(c, ast.Call) and call_name(c) == "tagged_hash" and c.args and ctx.fold(c.args[0], fi.module) == b"TapLeaf"]
        vb = [c for c in own_nodes(fi.node) if isinstance(c, ast.Call) and ctx.resolve_call(fi, c) == "btclib.var_bytes.serialize"]
        sites.append((q, bool(th), bool(vb)))
        rep.ob(rule, f"tapleaf:{q.rsplit('.', 1)[1]}", bool(th) and bool(vb), fi.where(), "tagged_hash('TapLeaf', version || var_bytes(script))")
    # ext = tapleaf_hash || 0x00 || codesep_pos(4, little)
    oc = ctx.func("btclib.script.engine.tapscript.op_checksig")
    from sa import pattern as PT_
    mx: dict[str, str] = {}
    extn = PT_.find(oc.node, "$ext = $leaf + b'\\x00' + $pos.to_bytes(4, 'little')", mx)
    # and it is what the sighash is handed
    used = extn is not None and any(isinstance(c, ast.Call) and any(isinstance(a, ast.Name) and a.id == mx.get("ext") for a in c.args) for c in own_nodes(oc.node))
    rep.ob(rule, "ext:op_checksig", used, oc.where(extn), "ext = tapleaf hash || 0x00 || codeseparator position (4 bytes, little-endian), handed to the sighash")
    ae = ctx.func(f"{SH}.taproot_annex_and_ext")
    ext2 = [n for n in own_nodes(ae.node) if isinstance(n, ast.Assign) and norm(n.targets[0]) == "ext" and not isinstance(n.value, ast.Constant)]
    # the two annex splitters (sighash side and engine side) apply one rule: >= 2 elements and first byte 0x50
    for q, subj in ((f"{SH}.taproot_annex_and_ext", "stack"), ("btclib.script.engine.taproot_get_annex", "witness.stack")):
        fa = ctx.func(q)
        tests = [n.test for n in own_nodes(fa.node) if isinstance(n, ast.If) and "b'P'" in norm(n.test)]
        okx = bool(tests) and isinstance(tests[0], ast.BoolOp) and isinstance(tests[0].op, ast.And) and norm(tests[0].values[0]) in (f"len({subj}) >= 2", f"len({subj}) > 1") \
            and norm(tests[0].values[1]) == f"{subj}[-1][:1] == b'P'"
        rep.ob(rule, f"annex_rule:{fa.name}", okx, fa.where(), f"annex iff {norm(tests[0]) if tests else None}")
    v = None
    if ext2 and isinstance(ext2[0].value, ast.BinOp):
        v = ctx.fold(ext2[0].value.right, ae.module)
    rep.ob(rule, "ext:annex_and_ext", v == b"\x00\xff\xff\xff\xff", ae.where(), f"ext = tapleaf_hash + {v!r} (key version 0, no OP_CODESEPARATOR)")


def rule_legacy(ctx: Ctx, rep: Report) -> None:
    """C09.legacy: structural rows of the legacy algorithm."""
    rule = "C09.legacy"
    fi = ctx.func(f"{SH}.legacy")
    g = ctx.cfg(fi)
    p = fi.params()  # script_code, tx, vin_i, hash_type
    ht = p[3]

    def under(node: ast.AST, cond: str) -> bool:
        return any(t == cond and pol for t, pol in g.facts_at_ast(node))

    none_c, single_c, acp_c = f"{ht} & 31 == NONE", f"{ht} & 31 == SINGLE", f"{ht} & 128"
    st_vout_empty = [n for n in own_nodes(fi.node) if isinstance(n, ast.Assign) and norm(n.targets[0]) == "new_tx.vout" and isinstance(n.value, ast.List) and not n.value.elts]
    rep.ob(rule, "NONE:outputs_emptied", bool(st_vout_empty) and under(st_vout_empty[0].value, none_c), fi.where(), "new_tx.vout = [] under (hash_type & 0x1f) == NONE")
    zs = [c for c in own_nodes(fi.node) if isinstance(c, ast.Call) and call_name(c) == "_zero_other_sequences"]
    rep.ob(rule, "NONE:other_sequences_zeroed", any(under(c, none_c) for c in zs), fi.where(), "other inputs' sequences zeroed under NONE")
    rep.ob(rule, "SINGLE:other_sequences_zeroed", any(under(c, single_c) for c in zs), fi.where(), "other inputs' sequences zeroed under SINGLE")
    z = ctx.func(f"{SH}._zero_other_sequences")
    okz = any(isinstance(n, ast.If) and norm(n.test) in ("i != vin_i", "vin_i != i") for n in own_nodes(z.node)) and any(isinstance(n, ast.Assign) and norm(n.targets[0]).endswith(".sequence") and ctx.fold(n.value, z.module) == 0 for n in own_nodes(z.node))
    rep.ob(rule, "_zero_other_sequences", okz, z.where(), "sets sequence = 0 for every input but vin_i")
    rets = [n for n in own_nodes(fi.node) if isinstance(n, ast.Return)]
    one = [r for r in rets if isinstance(ctx.fold(r.value, fi.module), bytes)]
    okone = bool(one) and ctx.fold(one[0].value, fi.module) == (1).to_bytes(32, "little") and under(one[0].value, single_c) and \
        any(t in (f"{p[2]} >= len(new_tx.vout)", f"{p[2]} >= len({p[1]}.vout)") and pol for t, pol in g.facts_at_ast(one[0].value))
    rep.ob(rule, "SINGLE:out_of_range_constant", okone, fi.where(), "returns the 32-byte little-endian one when SINGLE has no matching output")
    tr = [n for n in own_nodes(fi.node) if isinstance(n, ast.Assign) and norm(n.targets[0]) == "new_tx.vout" and isinstance(n.value, ast.BinOp)]
    oktr = bool(tr) and under(tr[0].value, single_c) and f"range({p[2]})" in norm(tr[0].value) and f"new_tx.vout[{p[2]}]" in norm(tr[0].value) and "TxOut(-1" in norm(tr[0].value)
    rep.ob(rule, "SINGLE:outputs_truncated", oktr, fi.where(), "outputs = vin_i blank (-1, empty script) fillers + the matching output")
    acp = [n for n in own_nodes(fi.node) if isinstance(n, ast.Assign) and norm(n.targets[0]) == "new_tx.vin"]
    okacp = bool(acp) and norm(acp[0].value) == f"[new_tx.vin[{p[2]}]]" and under(acp[0].value, acp_c)
    rep.ob(rule, "ANYONECANPAY:one_input", okacp, fi.where(), "inputs reduced to the signed one under hash_type & 0x80")
    # ordering: ACP reduction after the SINGLE/NONE handling that indexes by vin_i
    if acp and tr:
        rep.ob(rule, "order:ACP_last", acp[0].lineno > tr[0].lineno, fi.where(), "the ACP reduction happens after the index-based SINGLE handling")
    # hash type appended as 4 bytes LE; codeseparators removed; double sha256
    okh = any(isinstance(n, ast.AugAssign) and norm(n.target) == "preimage" and norm(n.value) == "serialized_hash_type" for n in own_nodes(fi.node)) and \
        any(isinstance(n, ast.Assign) and norm(n.targets[0]) == "serialized_hash_type" and call_name(n.value) == "_serialized_hash_type" for n in own_nodes(fi.node) if isinstance(n.value if isinstance(n, ast.Assign) else None, ast.Call))
    rep.ob(rule, "hash_type_appended", okh, fi.where(), "preimage += the 4-byte little-endian hash type")
    cs = [c for c in own_nodes(fi.node) if isinstance(c, ast.Call) and call_name(c) == "_without_op_codeseparators"]
    cp = [c for c in own_nodes(fi.node) if isinstance(c, ast.Call) and call_name(c) == "_legacy_tx_copy"]
    okc = bool(cs) and bool(cp) and cs[0].lineno < cp[0].lineno and norm(cp[0].args[2]) == norm(parent(cs[0]).targets[0]) if cs and isinstance(parent(cs[0]), ast.Assign) else False
    rep.ob(rule, "codeseparators_removed", okc, fi.where(), "OP_CODESEPARATORs are removed from the script code before it is placed")
    ser = [c for c in own_nodes(fi.node) if isinstance(c, ast.Call) and call_name(c) == "serialize" and any(k.arg == "include_witness" and ctx.fold(k.value, fi.module) is False for k in c.keywords)]
    rep.ob(rule, "stripped_serialization", bool(ser), fi.where(), "the copy is serialized without witness")
    rep.ob(rule, "double_sha256", any(isinstance(r.value, ast.Call) and call_name(r.value) == "hash256" for r in rets), fi.where(), "returns hash256(preimage)")
    lc = ctx.func(f"{SH}._legacy_tx_copy")
    txt = PT.text(lc)
    loc = {a_.targets[0].id: a_.value for a_ in own_nodes(lc.node) if isinstance(a_, ast.Assign) and len(a_.targets) == 1 and isinstance(a_.targets[0], ast.Name)}
    sets = False
    for a_ in own_nodes(lc.node):
        if isinstance(a_, ast.Assign) and isinstance(a_.targets[0], ast.Attribute) and a_.targets[0].attr == "script_sig" and norm(a_.value) == "script_code":
            base = a_.targets[0].value
            if isinstance(base, ast.Name) and base.id in loc:
                base = loc[base.id]
            sets = sets or norm(base).endswith(".vin[vin_i]")
    rep.ob(rule, "_legacy_tx_copy", "script_sig=b''" in txt and sets, lc.where(), "every script_sig blanked, the signed input's replaced by the script code")
    wc = ctx.func(f"{SH}._without_op_codeseparators")
    rep.ob(rule, "_without_op_codeseparators", any(isinstance(n, ast.If) and norm(n.test) == "op_code != OP_CODESEPARATOR" for n in own_nodes(wc.node)) and ctx.const(SH, "OP_CODESEPARATOR") == 0xAB,
           wc.where(), "walks op codes (not bytes) and keeps everything but 0xab")


def rule_refusals(ctx: Ctx, rep: Report) -> None:
    """C09.refusals: inputs the BIPs declare an error are refused."""
    rule = "C09.refusals"
    tp = ctx.func(f"{SH}.taproot")
    cs = refusal_constraints(ctx, tp)
    rep.ob(rule, "taproot:hash_type", any(c.op == "not in" and c.value == SPEC.TAPROOT_HASH_TYPES for c in cs), tp.where(), "hashtype not in SIG_HASH_TYPES refused")
    g = ctx.cfg(tp)
    s = [c for c in cs if ((c.op == ">=" and ".vout" in str(c.value_text) and "len(" in str(c.value_text)) or (c.op == "<=" and ".vout" in str(c.subject) and "len(" in str(c.subject))) and not c.from_fact]
    oks = any(any(("== SINGLE" in str(t) or "SINGLE ==" in str(t)) and p for t, p in c.facts) for c in s)
    rep.ob(rule, "taproot:single_without_output", oks, tp.where(), "SINGLE with input_index >= len(vout) refused")
    st = ctx.func(f"{SH}._serialized_spend_type")
    c2 = refusal_constraints(ctx, st)
    rep.ob(rule, "ext_flag_range", has_bound(c2, "<", 0, subject="ext_flag") is not None and has_bound(c2, ">", 0x7F, subject="ext_flag") is not None, st.where(), "ext_flag outside 0..127 refused")
    ca = ctx.func(f"{SH}._assert_valid_camount")
    cam = ctx.const(SH, "_CAMOUNT")
    rep.ob(rule, "camount", isinstance(cam, range) and cam.start == -(2**63) and cam.stop == 2**63 and any(c.op == "not in" for c in refusal_constraints(ctx, ca)), ca.where(), "amounts outside int64 refused")
    vi = ctx.func(f"{SH}._assert_valid_vin_i")
    c3 = refusal_constraints(ctx, vi)
    rep.ob(rule, "vin_i_range", has_bound(c3, "<", 0, subject="vin_i") is not None and has(c3, "vin_i", ">=", "len(tx.vin)") is not None, vi.where(), "0 <= vin_i < len(tx.vin)")
    for q in (f"{SH}.taproot", f"{SH}.segwit_v0", f"{SH}.legacy", f"{SH}.from_tx", f"{SH}.taproot_annex_and_ext"):
        fi = ctx.func(q)
        cv = ctx.calls_to(fi, "_assert_valid_vin_i", last=True)
        g2 = ctx.cfg(fi)
        ok = bool(cv) and g2.must_pass([i for c in cv for i in g2.nodes_containing(c)]) is None
        rep.ob(rule, f"{fi.name}:index_checked", ok, fi.where(), "input index validated on every path to a digest")
    ft = ctx.func(f"{SH}.from_tx")
    rep.ob(rule, "from_tx:len_prevouts", has(refusal_constraints(ctx, ft), "len(prevouts)", "!=", "len(tx.vin)") is not None, ft.where(), "len(prevouts) != len(tx.vin) refused")
    ah = ctx.func(f"{SH}.assert_valid_hash_type")
    rep.ob(rule, "assert_valid_hash_type", any(c.op == "not in" and c.value == SPEC.TAPROOT_HASH_TYPES for c in refusal_constraints(ctx, ah)), ah.where(), "the standard hash types")
    sh = ctx.func(f"{SH}._serialized_hash_type")
    c4 = refusal_constraints(ctx, sh)
    rep.ob(rule, "hash_type_width", has_bound(c4, "<", -(2**31)) is not None and has_bound(c4, ">=", 2**32) is not None, sh.where(), "hash type outside [-2^31, 2^32) refused")


ENTRY_POINTS = [
    ("btclib.psbt.psbt.ecdsa_sig_hash", {"legacy", "segwit_v0"}),
    ("btclib.psbt.psbt.taproot_sig_hash", {"taproot"}),
    ("btclib.psbt.psbt_view.PsbtView.ecdsa_sig_hash", {"legacy", "segwit_v0"}),
    ("btclib.psbt.psbt_view.PsbtView.taproot_sig_hash", {"taproot"}),
    (f"{SH}.from_tx", {"legacy", "segwit_v0", "taproot"}),
]


def rule_one_implementation(ctx: Ctx, rep: Report) -> None:
    """C09.one_implementation: every way to a sighash reaches sig_hash.legacy /
    segwit_v0 / taproot and hashes no transaction-shaped preimage of its own."""
    rule = "C09.one_implementation"
    for q, needs in ENTRY_POINTS:
        fi = ctx.func(q)
        for n in sorted(needs):
            path = ctx.reaches(q, lambda t, _n=n: t == f"{SH}.{_n}", depth=5)
            rep.ob(rule, f"{q}->{n}", path is not None, fi.where(), " -> ".join(p.rsplit(".", 1)[1] for p in path) if path else f"no call path to sig_hash.{n}")
    # nobody outside sig_hash builds a TapSighash / hashes a serialized transaction with a hash type suffix
    for fi in ctx.prog.functions.values():
        if fi.module.name == SH:
            continue
        for c in own_nodes(fi.node):
            if isinstance(c, ast.Call) and call_name(c) == "tagged_hash" and c.args and ctx.fold(c.args[0], fi.module) == b"TapSighash":
                rep.ob(rule, f"second_TapSighash:{fi.qualname}", False, fi.where(c), "a second implementation of the BIP341 message hash")
    # from_tx dispatch order
    ft = ctx.func(f"{SH}.from_tx")
    order = [call_name(n.test) for n in ft.node.body if isinstance(n, ast.If) and isinstance(n.test, ast.Call) and call_name(n.test).startswith("is_p2")]
    rep.ob(rule, "from_tx:dispatch_order", order[:4] == ["is_p2tr", "is_p2sh", "is_p2wpkh", "is_p2wsh"], ft.where(), f"classification order {order}")
    # the engine's three sighash consumers call the same functions
    for q, callee in (("btclib.script.engine.tapscript.verify_key_path", "taproot"), ("btclib.script.engine.tapscript.op_checksig", "taproot")):
        fi = ctx.func(q)
        rep.ob(rule, f"{q}->{callee}", bool(ctx.calls_to(fi, f"{SH}.{callee}")), fi.where(), f"calls sig_hash.{callee}")


def rule_view_copies(ctx: Ctx, rep: Report) -> None:
    """C09.view_copies: what the streamed view memoizes to compute digests never
    leaves it except as a deep copy, so a caller cannot change what the view signs."""
    rule = "C09.view_copies"
    ci = ctx.cls("btclib.psbt.psbt_view.PsbtView")
    getters = set()
    for name, m in ci.methods.items():
        ifs = [n for n in m.node.body if isinstance(n, ast.If) and isinstance(n.test, ast.Compare) and isinstance(n.test.ops[0], ast.Is)
               and isinstance(n.test.left, ast.Attribute) and norm(n.test.left.value) == "self" and isinstance(n.test.comparators[0], ast.Constant) and n.test.comparators[0].value is None]
        rets = [n for n in m.node.body if isinstance(n, ast.Return)]
        if ifs and rets and norm(rets[-1].value) == norm(ifs[0].test.left):
            getters.add(name)
    if len(getters) < 2:
        raise AnalysisError(f"PsbtView memo getters not recognised: {sorted(getters)}")
    DIGEST = {"_ecdsa_sig_hash", "_taproot_sig_hash", "_sig_hash_from_psbt_in", "legacy", "segwit_v0", "taproot", "from_tx", "PrecomputedTxData", "len"}
    for name, m in sorted(ci.methods.items()):
        if name.startswith("_"):
            continue
        tainted = set()
        for n in own_nodes(m.node):
            if isinstance(n, ast.Assign) and isinstance(n.value, ast.Call) and isinstance(n.value.func, ast.Attribute) and norm(n.value.func.value) == "self" and n.value.func.attr in getters:
                tainted |= {t.id for t in n.targets if isinstance(t, ast.Name)}
        bad = []
        uses = 0
        for r in (n for n in own_nodes(m.node) if isinstance(n, ast.Return) and n.value is not None):
            for x in ast.walk(r.value):
                hit = (isinstance(x, ast.Call) and isinstance(x.func, ast.Attribute) and norm(x.func.value) == "self" and x.func.attr in getters) or (isinstance(x, ast.Name) and x.id in tainted)
                if not hit:
                    continue
                uses += 1
                q = parent(x)
                safe = False
                while q is not None and not isinstance(q, ast.stmt):
                    if isinstance(q, ast.Call) and call_name(q) in ({"deepcopy"} | DIGEST) and q is not x:
                        safe = True
                        break
                    q = parent(q)
                if not safe:
                    bad.append(norm(r.value)[:70])
        if uses or name in ("tx", "prevouts"):
            rep.ob(rule, f"PsbtView.{name}", not bad, m.where(), "memoized state leaves only as a deep copy or a digest" if not bad else
                   f"returns (part of) the view's memoized object: {bad[0]}: editing the returned transaction changes what the view hashes next")
    rep.floor(rule, 2)


def rule_own_fields(ctx: Ctx, rep: Report) -> None:
    """C09.own_fields: an object hands its own fields to the functions it delegates to (see sigcommon.rule_own_fields_forwarded)."""
    from rules.sigcommon import rule_own_fields_forwarded
    rule_own_fields_forwarded(ctx, rep, "C09.own_fields", ('btclib.psbt.psbt_view',), 8)


def rule_params_forwarded_(ctx: Ctx, rep: Report) -> None:
    """C09.params_forwarded: a parameter is handed on to callees that have a parameter of the same name (see sigcommon.rule_params_forwarded)."""
    from rules.sigcommon import rule_params_forwarded
    rule_params_forwarded(ctx, rep, "C09.params_forwarded", ('btclib.script.sig_hash', 'btclib.psbt.psbt_view'), 20)


def rule_explicit_zero(ctx: Ctx, rep: Report) -> None:
    """C09.explicit_zero: SIGHASH_DEFAULT is 0, and it is a hash type a caller can
    name. An optional integer (a `hash_type` argument, a psbt field such as
    `sig_hash_type`, `sequence`, `output_index`) is defaulted with `is None`,
    or with `or <zero>` (where falling through on 0 changes nothing) -- never
    with `x or <something that is not zero>`, which reads an explicit 0 as
    "not given" and computes the digest of another hash type."""
    rule = "C09.explicit_zero"
    n = 0
    OPT_ATTRS = {"sig_hash_type", "sequence", "output_index", "hash_type", "fallback_lock_time", "tx_modifiable", "required_time_lock_time", "required_height_lock_time"}
    for q, fi in sorted(ctx.prog.functions.items()):
        if not (q.startswith("btclib.psbt.") or q.startswith("btclib.script.sig_hash") or q.startswith("btclib.bip322") or q.startswith("btclib.psbt_signer")):
            continue
        a = fi.node.args
        ann = {p_.arg: str(norm(p_.annotation)).replace(" ", "") for p_ in a.posonlyargs + a.args + a.kwonlyargs if p_.annotation is not None}
        optint = {p_ for p_, t in ann.items() if t in ("int|None", "None|int", "Optional[int]")}
        for b in own_nodes(fi.node):
            if not (isinstance(b, ast.BoolOp) and isinstance(b.op, ast.Or)):
                continue
            for i, v in enumerate(b.values[:-1]):
                is_opt = (isinstance(v, ast.Name) and v.id in optint) or (isinstance(v, ast.Attribute) and v.attr in OPT_ATTRS)
                if not is_opt:
                    continue
                n += 1
                nxt = b.values[i + 1]
                z = ctx.fold(nxt, fi.module)
                ok = (isinstance(z, int) and not isinstance(z, bool) and z == 0) and i + 1 == len(b.values) - 1
                rep.ob(rule, f"{q}:{norm(b)[:60]}", ok, fi.where(b), "falls through on 0 to 0" if ok else
                       f"`{norm(b)[:80]}` reads an explicit 0 of `{norm(v)}` as absent and takes `{norm(nxt)[:30]}` instead: SIGHASH_DEFAULT (or a sequence / index of 0) named by the caller is replaced")
    rep.floor(rule, 8)


def rule_explicit_default_byte(ctx: Ctx, rep: Report) -> None:
    """C09.explicit_default_byte: BIP341's message for hash type 0 is defined for a
    64-byte signature only: a 65-byte signature whose last byte is 0x00 names
    SIGHASH_DEFAULT explicitly and is invalid ("hash_type 0x00 ... results in
    failure"). get_hashtype, through which every taproot signature's hash type
    is read, refuses a zero last byte on the 65-byte path -- the membership
    test in the seven defined types does not, 0 being one of them."""
    from sa.ranges import refusal_constraints
    rule = "C09.explicit_default_byte"
    gh = ctx.func("btclib.script.engine.tapscript.get_hashtype")
    cs = refusal_constraints(ctx, gh)
    g = ctx.cfg(gh)
    p0 = gh.params()[0]
    z = [c for c in cs if c.op == "==" and c.value == 0 and not c.from_fact]
    ok = bool(z) and any(str(t).replace(" ", "") in (f"len({p0})==65", f"65==len({p0})") and pol for t, pol in g.facts_at_ast(z[0].node))
    rep.ob(rule, "get_hashtype:65_bytes_ending_00", ok, gh.where(), "a 65-byte signature whose hash type byte is 0 is refused" if ok else
           f"no refusal of a zero hash type byte on the 65-byte path (refusals: {[c.show() for c in cs][:5]}): an explicit SIGHASH_DEFAULT is hashed as if it were the 64-byte form")
    rep.floor(rule, 1)


def rule_script_code_order(ctx: Ctx, rep: Report) -> None:
    """C09.script_code_order: the legacy script code is the script *from the last
    executed OP_CODESEPARATOR on*, and FindAndDelete runs on that: Core computes
    `scriptCode(pbegincodehash, pend)` first and deletes from it. In
    `calculate_script_code` the slice by the codeseparator offset is taken
    before `find_and_delete`, and what is returned is not sliced again -- a
    deletion before the offset would shift everything the offset points at."""
    rule = "C09.script_code_order"
    fi = ctx.func("btclib.script.engine.script.calculate_script_code")
    off = fi.params()[1]
    sl = sorted([a for a in own_nodes(fi.node) if isinstance(a, ast.Assign) and isinstance(a.value, ast.Subscript) and isinstance(a.value.slice, ast.Slice) and a.value.slice.lower is not None
                 and any(isinstance(x, ast.Name) and x.id == off for x in ast.walk(a.value.slice.lower))], key=lambda a: a.lineno)
    fd = sorted([c for c in own_nodes(fi.node) if isinstance(c, ast.Call) and call_name(c) == "find_and_delete"], key=lambda c: c.lineno)
    ok = bool(sl) and bool(fd) and sl[0].lineno < fd[0].lineno and isinstance(fd[0].args[0], ast.Name) and isinstance(sl[0].targets[0], ast.Name) and fd[0].args[0].id == sl[0].targets[0].id
    rep.ob(rule, "calculate_script_code:slice_then_delete", ok, fi.where(fd[0] if fd else None), "the script code is cut at the codeseparator, then searched" if ok else
           "find_and_delete does not run on the script cut at the codeseparator offset: a signature deleted before the offset moves what the offset points at")
    rets = [r for r in own_nodes(fi.node) if isinstance(r, ast.Return) and r.value is not None]
    okr = all(not isinstance(r.value, ast.Subscript) for r in rets)
    rep.ob(rule, "calculate_script_code:returned_whole", okr, fi.where(rets[0] if rets else None), "what was searched is what is returned" if okr else f"`{norm(rets[0])}` cuts the script code after the deletion")
    rep.floor(rule, 2)


def rule_redeem_script_refusals(ctx: Ctx, rep: Report) -> None:
    """C09.redeem_script_refusals: the redeem script of a p2sh input is the *last*
    push of its script_sig, whatever precedes it -- the signatures of a
    p2sh multisig do. `sig_hash.redeem_script` refuses an empty script_sig, a
    last command that is no push, and a hash that does not match; it has no
    refusal on how many commands there are, which would refuse every p2sh
    spend that is not a wrapped segwit program."""
    from sa.ranges import refusal_constraints
    rule = "C09.redeem_script_refusals"
    fi = ctx.func("btclib.script.sig_hash.redeem_script")
    cs = refusal_constraints(ctx, fi)
    counts = [c for c in cs if str(c.subject).replace(" ", "").startswith("len(") and not c.from_fact and not (c.op in ("==", "<", "<=", "falsy") and c.value in (0, 1, None))]
    counts = [c for c in counts if c.op in (">", ">=", "!=") ]
    rep.ob(rule, "redeem_script:no_count_refusal", not counts, fi.where(counts[0].node if counts and counts[0].node is not None else None), "no refusal on the number of commands" if not counts else
           f"`{counts[0].show()}` refuses a script_sig by its number of pushes: a p2sh multisig spend (signatures, then the redeem script) has no sig_hash")
    takes_last = any(isinstance(x, ast.Subscript) and ctx.fold(x.slice, fi.module) == -1 for x in own_nodes(fi.node))
    rep.ob(rule, "redeem_script:last_push", takes_last, fi.where(), "the last command is the one read")
    rep.floor(rule, 2)


def rule_annex_whole(ctx: Ctx, rep: Report) -> None:
    """C09.annex_whole: BIP341 hashes the annex "including the mandatory 0x50
    prefix": `sha_annex = SHA256(compact_size(len) || annex)` over the whole
    last witness element. Both places that split the annex off a witness stack
    (the engine's `taproot_get_annex`, sig_hash's `taproot_annex_and_ext`)
    answer, under the test that the element starts with 0x50, the element
    itself -- not a slice of it: an annex handed on without its tag byte is
    another message, and a correctly signed spend with an annex is refused."""
    rule = "C09.annex_whole"
    n = 0
    for q in ("btclib.script.engine.taproot_get_annex", "btclib.script.sig_hash.taproot_annex_and_ext"):
        fi = ctx.func(q)
        g = ctx.cfg(fi)
        cands: list[ast.AST] = []
        for r in own_nodes(fi.node):
            if isinstance(r, ast.Return) and isinstance(r.value, ast.Tuple) and r.value.elts:
                cands.append(r.value.elts[0])
            if isinstance(r, ast.Assign) and isinstance(r.targets[0], ast.Name) and "annex" in r.targets[0].id.lower():
                cands.append(r.value)
        for e in cands:
            facts = [str(t) for t, pol in g.facts_at_ast(e) if pol]
            def _tagged(t: str) -> bool:
                try:
                    return any(isinstance(x, ast.Constant) and x.value in (b"\x50", 0x50) for x in ast.walk(ast.parse(t, mode="eval")))
                except SyntaxError:
                    return False
            if not any(_tagged(t) for t in facts):
                continue
            n += 1
            whole = isinstance(e, ast.Subscript) and not isinstance(e.slice, ast.Slice) and ctx.fold(e.slice, fi.module) == -1
            rep.ob(rule, f"{fi.name}:annex", whole, fi.where(e), f"the annex is the whole element `{norm(e)}`" if whole else
                   f"the annex is answered as `{norm(e)}`: BIP341 hashes the element with its 0x50 tag, and this is another message")
    rep.floor(rule, 2)


def rule_p2wpkh_script_code(ctx: Ctx, rep: Report) -> None:
    """C09.p2wpkh_script_code: BIP143's script code for a p2wpkh input is
    `OP_DUP OP_HASH160 <20 bytes> OP_EQUALVERIFY OP_CHECKSIG`, whatever else the
    psbt input carries; the witness script is the script code of a p2wsh input
    and of no other. In `_witness_v0_script_code` the witness script is
    answered only where the spent script is known *not* to be p2wpkh -- else a
    stray PSBT_IN_WITNESS_SCRIPT on a p2wpkh input changes the digest, and the
    psbt's sig_hash differs from the direct one."""
    rule = "C09.p2wpkh_script_code"
    fi = ctx.func("btclib.psbt.psbt._witness_v0_script_code")
    g = ctx.cfg(fi)
    n = 0
    for r in own_nodes(fi.node):
        if not (isinstance(r, ast.Return) and r.value is not None):
            continue
        n += 1
        facts = {(str(t).replace(" ", ""), pol) for t, pol in g.facts_at_ast(r.value)}
        is_ws = isinstance(r.value, ast.Attribute) and r.value.attr == "witness_script"
        wpkh_false = any(t.startswith("is_p2wpkh(") and pol is False for t, pol in facts)
        wpkh_true = any(t.startswith("is_p2wpkh(") and pol is True for t, pol in facts)
        if is_ws:
            rep.ob(rule, f"_witness_v0_script_code:return@{n}:witness_script", wpkh_false, fi.where(r), "the witness script is the script code only where the spent script is not p2wpkh" if wpkh_false else
                   "the witness script is answered on a path where the spent script may be p2wpkh: a stray witness script replaces BIP143's p2pkh template in the digest")
        else:
            rep.ob(rule, f"_witness_v0_script_code:return@{n}:template", wpkh_true, fi.where(r), "the p2pkh template is answered for p2wpkh" if wpkh_true else f"`{norm(r)[:60]}` is answered outside the p2wpkh case")
    rep.floor(rule, 2)


RULES = [
    ("C09.p2wpkh_script_code", rule_p2wpkh_script_code),

    ("C09.annex_whole", rule_annex_whole),

    ("C09.script_code_order", rule_script_code_order),
    ("C09.redeem_script_refusals", rule_redeem_script_refusals),

    ("C09.explicit_default_byte", rule_explicit_default_byte),
    ("C09.explicit_zero", rule_explicit_zero),
    ("C09.params_forwarded", rule_params_forwarded_),
    ("C09.own_fields", rule_own_fields),
    ("C09.bip341", rule_bip341),
    ("C09.bip143", rule_bip143),
    ("C09.helpers", rule_helpers),
    ("C09.legacy", rule_legacy),
    ("C09.refusals", rule_refusals),
    ("C09.one_implementation", rule_one_implementation),
    ("C09.view_copies", rule_view_copies),
]

CONTROLS = [
    {"rule": "C09.explicit_zero", "name": "an explicit SIGHASH_DEFAULT falls through to the input's type", "module": "btclib.psbt.psbt",
     "edit": lambda ctx: M.sub_expr(ctx, "btclib.psbt.psbt._taproot_sig_hash", lambda n: isinstance(n, ast.If) and norm(n.test) == "hash_type is None", "hash_type = hash_type or psbt_in.sig_hash_type or DEFAULT")},
    {"rule": "C09.bip341", "name": "sha_amounts and sha_script_pub_keys swapped", "module": SH,
     "edit": lambda ctx: M.sub_expr(ctx, f"{SH}.taproot", lambda n: isinstance(n, ast.List) and "precomputed.sha_amounts" in norm(n),
                                    "[precomputed.sha_prevouts, precomputed.sha_script_pub_keys, precomputed.sha_amounts, precomputed.sha_sequences]")},
    {"rule": "C09.bip341", "name": "outputs committed under NONE too", "module": SH,
     "edit": lambda ctx: M.sub_expr(ctx, f"{SH}.taproot", M.is_text("hashtype & 0x03 not in {NONE, SINGLE}"), "hashtype & 0x03 not in {SINGLE}")},
    {"rule": "C09.bip143", "name": "hashSequence kept under SINGLE", "module": SH,
     "edit": lambda ctx: M.sub_expr(ctx, f"{SH}.segwit_v0", lambda n: isinstance(n, ast.BoolOp) and "!= SINGLE" in norm(n) and "!= NONE" in norm(n),
                                    "not (hash_type & ANYONECANPAY) and (hash_type & 0x1F) != NONE")},
    {"rule": "C09.helpers", "name": "amount serialized unsigned", "module": SH,
     "edit": lambda ctx: M.sub_expr(ctx, f"{SH}._serialized_camount", lambda n: isinstance(n, ast.keyword) and n.arg == "signed", "signed=False")},
    {"rule": "C09.helpers", "name": "sha_sequences computed from the outputs", "module": SH,
     "edit": lambda ctx: M.sub_expr(ctx, f"{SH}.PrecomputedTxData.__init__", lambda n: isinstance(n, ast.Call) and call_name(n) == "_serialized_sequences", "_serialized_outputs(tx)")},
    {"rule": "C09.helpers", "name": "annex needs three witness elements on the sighash side", "module": SH,
     "edit": lambda ctx: M.sub_expr(ctx, f"{SH}.taproot_annex_and_ext", M.is_text("len(stack) >= 2"), "len(stack) > 2")},
    {"rule": "C09.view_copies", "name": "PsbtView.prevouts hands out its memoized list", "module": "btclib.psbt.psbt_view",
     "edit": lambda ctx: M.sub_expr(ctx, "btclib.psbt.psbt_view.PsbtView.prevouts", lambda n: isinstance(n, ast.Call) and call_name(n) == "deepcopy", "list(self._spent())")},
    {"rule": "C09.legacy", "name": "NONE keeps the other sequences", "module": SH,
     "edit": lambda ctx: M.sub_expr(ctx, f"{SH}.legacy", lambda n: isinstance(n, ast.Expr) and "_zero_other_sequences" in norm(n), "pass")},
    {"rule": "C09.refusals", "name": "taproot SINGLE without output no longer refused", "module": SH,
     "edit": lambda ctx: M.drop_if(ctx, f"{SH}.taproot", lambda n: "SINGLE" in norm(n.test) and "len(" in norm(n.test))},
    {"rule": "C09.one_implementation", "name": "from_tx tests p2wpkh before unwrapping p2sh", "module": SH,
     "edit": lambda ctx: _swap_dispatch(ctx)},
]


def _swap_dispatch(ctx: Ctx):
    fi = ctx.prog.functions.get(f"{SH}.from_tx")
    if fi is None:
        return None
    ifs = [n for n in fi.node.body if isinstance(n, ast.If) and isinstance(n.test, ast.Call) and call_name(n.test) in ("is_p2sh", "is_p2wpkh")]
    if len(ifs) != 2:
        return None
    src = fi.module.source
    a, b = ast.get_source_segment(src, ifs[0]), ast.get_source_segment(src, ifs[1])
    return M.replace_nodes(src, [(ifs[0], b), (ifs[1], a)])
