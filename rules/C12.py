"""C12 -- taproot outputs commit to exactly their key and script tree.

Commitment soundness is a value property (hash preimage resistance): not
decided. Decided: the tweak is refused at t >= n and every consumer obtains it
from the one function; builder and verifier order sibling hashes the same way
(three-case propagation of the only operation applied to them, a comparison);
leaf / branch / tweak tags and preimage shapes; the private key is negated
exactly when the public point has odd y and the even-y lift mirrors it; the
verifier checks both x and parity; control block size rows; the engine gate.
"""

from __future__ import annotations

import ast

from sa import mutate as M
from sa import pattern as PT
from sa import values as VX
from sa.ctx import Ctx
from sa.loader import AnalysisError, call_name, norm, own_nodes, parent
from sa.ranges import has, has_bound, refusal_constraints
from sa.report import Report

NOTES = ("C12: decides the tweak range refusal and its single source, sibling-ordering agreement of builder and verifier, "
         "tags and preimage shapes, parity handling, control-block size rows and the engine gate; that an altered control "
         "block no longer verifies is hash preimage resistance and is not decided.")
T = "btclib.script.taproot"


SECOND_SOURCE_OK = {
    # the bytes are handed to BIP327's tweak application, which refuses t >= n itself (musig2 session_values)
    "btclib.psbt.musig2._tweaks": "BIP373 session tweak: range-checked by BIP327 ApplyTweak downstream",
}


def rule_tweak(ctx: Ctx, rep: Report) -> None:
    """C12.tweak: t >= n is refused; every tweak comes from _tap_tweak."""
    rule = "C12.tweak"
    tt = ctx.func(f"{T}._tap_tweak")
    g = ctx.cfg(tt)
    from sa.ranges import refused_on_every_path
    tn = PT.find(tt.node, "$t = int.from_bytes($$h, 'big')", mt := {}) or PT.find(tt.node, "$t = int.from_bytes($$h, byteorder='big')", mt)
    ok = refused_on_every_path(ctx, tt, mt.get("t", "t"), ">=", "secp256k1.n")
    rep.ob(rule, "range", ok, tt.where(), "t >= n refused on every path to the returned tweak" if ok else "an out-of-range tweak can be returned")
    th = [c for c in own_nodes(tt.node) if isinstance(c, ast.Call) and call_name(c) == "tagged_hash"]
    okt = bool(th) and ctx.fold(th[0].args[0], tt.module) == b"TapTweak" and norm(th[0].args[1]) == f"{tt.params()[0]} + {tt.params()[1]}"
    rep.ob(rule, "preimage", okt, tt.where(), "tagged_hash('TapTweak', P || h)")
    df = [n for n in own_nodes(tt.node) if isinstance(n, ast.Assign) and norm(n.targets[0]) == "t"]
    rep.ob(rule, "big_endian", bool(df) and norm(df[0].value).startswith("int.from_bytes(") and "'big'" in norm(df[0].value), tt.where(), "the hash is read as a big-endian integer")
    n = 0
    for fi in ctx.prog.functions.values():
        if fi.qualname == tt.qualname:
            continue
        if fi.qualname in SECOND_SOURCE_OK:
            continue
        for c in own_nodes(fi.node):
            if isinstance(c, ast.Call) and call_name(c) == "tagged_hash" and c.args and ctx.fold(c.args[0], fi.module) == b"TapTweak":
                n += 1
                rep.ob(rule, f"second_source:{fi.qualname}", False, fi.where(c), "a second computation of the taproot tweak, without the range refusal")
    rep.ob(rule, "single_source", n == 0, tt.where(), "no other function hashes with the TapTweak tag")
    for q in (f"{T}._tweaked_pubkey", f"{T}._tweaked_prvkey", f"{T}.check_output_pubkey"):
        fi = ctx.func(q)
        cs = ctx.calls_to(fi, f"{T}._tap_tweak")
        rep.ob(rule, f"{fi.name}:uses_tap_tweak", bool(cs), fi.where(), f"{len(cs)} call(s) of _tap_tweak")


def _order_cases(ctx: Ctx, cond: ast.Compare, then_concat: tuple[str, str], else_concat: tuple[str, str]) -> dict[str, tuple[str, str]] | None:
    """For `if a <op> b: X else: Y` return, for each ordering of the two
    values, which (first, second) pair is concatenated -- as 'min'/'max'."""
    a, b = norm(cond.left), norm(cond.comparators[0])
    op = type(cond.ops[0])
    table = {ast.Lt: lambda x, y: x < y, ast.LtE: lambda x, y: x <= y, ast.Gt: lambda x, y: x > y, ast.GtE: lambda x, y: x >= y}
    if op not in table:
        return None
    out = {}
    for case, (va, vb) in {"a<b": (0, 1), "a==b": (0, 0), "a>b": (1, 0)}.items():
        taken = then_concat if table[op](va, vb) else else_concat
        vals = {a: va, b: vb}
        if taken[0] not in vals or taken[1] not in vals:
            return None
        out[case] = (vals[taken[0]], vals[taken[1]])
    return out


def rule_sibling_order(ctx: Ctx, rep: Report) -> None:
    """C12.sibling_order: both sites hash min || max."""
    rule = "C12.sibling_order"
    # verifier: if k < e: k = H(k + e) else: k = H(e + k)
    co = ctx.func(f"{T}.check_output_pubkey")
    ifs = [n for n in own_nodes(co.node) if isinstance(n, ast.If) and isinstance(n.test, ast.Compare) and any(isinstance(c, ast.Call) and call_name(c) == "tagged_hash" for s in n.body for c in ast.walk(s))]
    # the same choice written as a conditional expression (`k = H(k + e) if k < e else H(e + k)`)
    ifs += [n for n in own_nodes(co.node) if isinstance(n, ast.IfExp) and isinstance(n.test, ast.Compare) and any(isinstance(c, ast.Call) and call_name(c) == "tagged_hash" for c in ast.walk(n.body))]
    res_v = None
    if ifs:
        def concat(body):
            c = [x for s in body for x in ast.walk(s) if isinstance(x, ast.Call) and call_name(x) == "tagged_hash"]
            if c and isinstance(c[0].args[1], ast.BinOp) and ctx.fold(c[0].args[0], co.module) == b"TapBranch":
                return norm(c[0].args[1].left), norm(c[0].args[1].right)
            return None
        as_list = lambda b_: b_ if isinstance(b_, list) else [b_]  # noqa: E731
        t, e = concat(as_list(ifs[0].body)), concat(as_list(ifs[0].orelse))
        if t and e:
            res_v = _order_cases(ctx, ifs[0].test, t, e)
    ok_v = res_v is not None and all(v[0] <= v[1] for v in res_v.values())
    rep.ob(rule, "verifier:min||max", ok_v, co.where(), f"orderings {res_v}" if res_v else "branch shape not recognised")
    # builder: if right_h < left_h: swap ; H(left_h + right_h)
    th = ctx.func(f"{T}.tree_helper")
    sw = [n for n in own_nodes(th.node) if isinstance(n, ast.If) and isinstance(n.test, ast.Compare) and len(n.body) == 1 and isinstance(n.body[0], ast.Assign)
          and isinstance(n.body[0].targets[0], ast.Tuple)]
    res_b = None
    hs = [c for c in own_nodes(th.node) if isinstance(c, ast.Call) and call_name(c) == "tagged_hash" and ctx.fold(c.args[0], th.module) == b"TapBranch"]
    if sw and hs and isinstance(hs[0].args[1], ast.BinOp):
        tg = [norm(x) for x in sw[0].body[0].targets[0].elts]
        vl = [norm(x) for x in sw[0].body[0].value.elts]
        first, second = norm(hs[0].args[1].left), norm(hs[0].args[1].right)
        if sorted(tg) == sorted(vl) and tg == vl[::-1] and {first, second} == set(tg):
            # after a swap the names hold each other's values
            then_c = (second, first)  # swapped: `first` now holds what was `second`
            else_c = (first, second)
            res_b = _order_cases(ctx, sw[0].test, then_c, else_c)
    ok_b = res_b is not None and all(v[0] <= v[1] for v in res_b.values())
    rep.ob(rule, "builder:min||max", ok_b, th.where(), f"orderings {res_b}" if res_b else "swap shape not recognised")
    rep.ob(rule, "agree", ok_v and ok_b, th.where(), "builder and verifier concatenate the two hashes in the same order in all three cases")
    # the builder hands each leaf the sibling hash of the other side
    txt = PT.text(th)
    rep.ob(rule, "builder:paths", "[(leaf, c + right_h) for leaf, c in left]" in txt and "[(leaf, c + left_h) for leaf, c in right]" in txt, th.where(), "left leaves get right_h appended, right leaves left_h")
    sw_line = sw[0].lineno if sw else 0
    info = [n for n in own_nodes(th.node) if isinstance(n, (ast.Assign, ast.AugAssign)) and norm(n.targets[0] if isinstance(n, ast.Assign) else n.target) == "info"]
    rep.ob(rule, "builder:paths_before_swap", bool(info) and all(n.lineno < sw_line for n in info), th.where(), "paths are extended before left/right are swapped for hashing")
    # the verifier walks every 32-byte node of the control block
    loop = [n for n in own_nodes(co.node) if isinstance(n, ast.For) and norm(n.iter) == "range(m)"]
    sl = [n for n in own_nodes(co.node) if isinstance(n, ast.Assign) and norm(n.targets[0]) == "e"]
    rep.ob(rule, "verifier:walk", bool(loop) and bool(sl) and norm(sl[0].value) == "control[33 + 32 * j:65 + 32 * j]", co.where(), "e = control[33+32j : 65+32j] for j in range(m)")


def rule_shapes(ctx: Ctx, rep: Report) -> None:
    """C12.shapes: leaf hash, parity and the verifier's two comparisons."""
    rule = "C12.shapes"
    lh = ctx.func(f"{T}.leaf_hash")
    th = [c for c in own_nodes(lh.node) if isinstance(c, ast.Call) and call_name(c) == "tagged_hash"]
    txt = PT.text(lh)
    rep.ob(rule, "leaf_hash", bool(th) and ctx.fold(th[0].args[0], lh.module) == b"TapLeaf" and "leaf_version.to_bytes(1" in txt and "var_bytes.serialize(script)" in txt, lh.where(), "TapLeaf(version || compact_size(len) || script)")
    co = ctx.func(f"{T}.check_output_pubkey")
    c0 = [c for c in own_nodes(co.node) if isinstance(c, ast.Call) and call_name(c) == "leaf_hash"]
    vxc = VX.of(co)
    rep.ob(rule, "verifier:leaf_version_mask", bool(c0) and vxc.anywhere("leaf_hash($$c[0] & 254, $$s)"), co.where(), "leaf version = control[0] & 0xfe")
    rets = [n for n in own_nodes(co.node) if isinstance(n, ast.Return) and isinstance(n.value, ast.BoolOp)]
    okr = False
    for r_ in rets:
        if isinstance(r_.value.op, ast.And) and len(r_.value.values) == 2:
            for a_, b_ in (r_.value.values, r_.value.values[::-1]):
                mq: dict[str, str] = {}
                okr |= PT.match(PT.compile_("$Q[0] == int.from_bytes(q, 'big')"), a_, mq) and (PT.match(PT.compile_("control[0] & 1 == $Q[1] % 2"), b_, mq) or PT.match(PT.compile_("control[0] & 1 == $Q[1] & 1"), b_, mq))
    okr = okr or vxc.returns("$$Q[0] == int.from_bytes($$q, 'big') and $$c[0] % 2 == $$Q[1] % 2") or vxc.returns("control[0] % 2 == $$Q[1] % 2 and $$Q[0] == int.from_bytes(q, 'big')")
    rep.ob(rule, "verifier:x_and_parity", okr, co.where(), "accepts only if both the x-coordinate and the parity bit match")
    dl = [c for c in own_nodes(co.node) if isinstance(c, ast.Call) and call_name(c) == "tweak_add_check"]
    rep.ob(rule, "verifier:delegated_parity", bool(dl) and norm(dl[0].args[1]) == "control[0] & 1", co.where(), "the delegated check is handed the parity bit")
    mpb: dict[str, str] = {}
    pb = PT.find(co.node, "$pb = control[1:33]", mpb)
    tw = PT.find(co.node, "$t = _tap_tweak($pb, $k)", mpb)
    rep.ob(rule, "verifier:internal_key_slice", pb is not None and tw is not None, co.where(pb), "internal key = control[1:33], and it is what the tweak commits to")
    pv = ctx.func(f"{T}._tweaked_prvkey")
    txt = PT.text(pv)
    vx = VX.of(pv)
    rep.ob(rule, "prvkey:negated_iff_odd_y", vx.anywhere("secp256k1.n - internal_prvkey if mult(internal_prvkey)[1] % 2 else internal_prvkey"), pv.where(), "d := n - d exactly when the public point has odd y")
    rep.ob(rule, "prvkey:sum_mod_n", vx.anywhere("($$d + $$t) % secp256k1.n"), pv.where(), "(d + t) mod n")
    pk = ctx.func(f"{T}._tweaked_pubkey")
    txt = PT.text(pk)
    vx = VX.of(pk)
    rep.ob(rule, "pubkey:even_y_lift", vx.anywhere("($$x, secp256k1.p - $$y if $$y % 2 else $$y)"), pk.where(), "the internal key is lifted to even y")
    rep.ob(rule, "pubkey:returns_parity", vx.returns("$$Q[1] % 2"), pk.where(), "the output key's parity is returned")
    rep.ob(rule, "pubkey:x_only_internal", "pub_key.sec[1:33]" in txt, pk.where(), "the tweak commits to the 32-byte x of the internal key")


def _is_even_mask(e: ast.AST) -> bool:
    """`x & 0xFE` (either way round)."""
    return isinstance(e, ast.BinOp) and isinstance(e.op, ast.BitAnd) and any(isinstance(o, ast.Constant) and o.value == 0xFE for o in (e.left, e.right))


def rule_builder_byte(ctx: Ctx, rep: Report) -> None:
    """C12.builder_byte: the first control byte the library writes is parity +
    leaf version, and the verifier reads its low bit as the parity -- so the
    version that goes into the sum must have its low bit cleared, at the
    sum or where the leaf it is read from is made (the two sites cooperate:
    the leaf hash already masks the version, so an odd spelling of a version
    commits to the same tree and must prove against it)."""
    rule = "C12.builder_byte"
    isg = ctx.func(f"{T}.input_script_sig")
    g = ctx.cfg(isg)
    sums = [c.func.value for c in own_nodes(isg.node) if isinstance(c, ast.Call) and isinstance(c.func, ast.Attribute) and c.func.attr == "to_bytes"
            and isinstance(c.func.value, ast.BinOp) and isinstance(c.func.value.op, (ast.Add, ast.BitOr)) and c.args and norm(c.args[0]) == "1"]
    if len(sums) != 1:
        rep.unknown(rule, "input_script_sig", isg.where(), f"{len(sums)} one-byte sums: the control byte is not built in the shape this rule reads")
        return
    # which operand is the parity: the one bound from the output-key helper
    par = {norm(e) for a in own_nodes(isg.node) if isinstance(a, ast.Assign) and isinstance(a.value, ast.Call) and "output_pubkey" in call_name(a.value)
           for t in a.targets if isinstance(t, ast.Tuple) for e in t.elts}
    ops = [sums[0].left, sums[0].right]
    ver = [o for o in ops if norm(o) not in par]
    if len(ver) != 1:
        rep.unknown(rule, "input_script_sig", isg.where(sums[0]), f"cannot tell the version from the parity in `{norm(sums[0])}`")
        return
    v = ver[0]
    if _is_even_mask(v):
        rep.ob(rule, "control_byte:version_even", True, isg.where(sums[0]), "the version is masked in the sum")
        return
    masked_here = [n for n in own_nodes(isg.node) if (isinstance(n, ast.AugAssign) and isinstance(n.op, ast.BitAnd) and norm(n.target) == norm(v) and isinstance(n.value, ast.Constant) and n.value.value == 0xFE)
                   or (isinstance(n, ast.Assign) and norm(n.targets[0]) == norm(v) and _is_even_mask(n.value))]
    tgt = g.nodes_containing(sums[0])
    if masked_here and g.path_avoiding(tgt, [i for m in masked_here for i in g.nodes_containing(m)]) is None:
        rep.ob(rule, "control_byte:version_even", True, isg.where(sums[0]), "the version is masked before the sum")
        return
    # else it must come masked out of the tree walk: the leaf tuples _tree_helper hands back
    made = []
    for q in (f"{T}._tree_helper", f"{T}.tree_helper"):
        fi = ctx.prog.functions.get(q)
        if fi is None:
            continue
        for r in own_nodes(fi.node):
            if not (isinstance(r, ast.Return) and r.value is not None):
                continue
            for t in ast.walk(r.value):
                # ((version, script), b"")
                if isinstance(t, ast.Tuple) and len(t.elts) == 2 and isinstance(t.elts[0], ast.Tuple) and len(t.elts[0].elts) == 2 \
                        and isinstance(t.elts[1], ast.Constant) and t.elts[1].value == b"":
                    made.append((fi, r, t.elts[0].elts[0]))
    if not made:
        rep.unknown(rule, "tree_helper", isg.where(), "no leaf tuple `((version, script), b'')` is returned by the tree walk: shape not recognised")
        return
    for fi, r, x in made:
        if _is_even_mask(x):
            ok = True
        else:
            g2 = ctx.cfg(fi)
            ms = [n for n in own_nodes(fi.node) if (isinstance(n, ast.AugAssign) and isinstance(n.op, ast.BitAnd) and norm(n.target) == norm(x) and isinstance(n.value, ast.Constant) and n.value.value == 0xFE)
                  or (isinstance(n, ast.Assign) and norm(n.targets[0]) == norm(x) and _is_even_mask(n.value))]
            ok = bool(ms) and g2.path_avoiding(g2.nodes_containing(r), [i for m in ms for i in g2.nodes_containing(m)]) is None
        rep.ob(rule, f"control_byte:version_even:{fi.qualname.rsplit('.', 1)[1]}", ok, fi.where(r),
               "the leaf the walk hands back carries the masked version, which is what input_script_sig adds the parity to" if ok else
               f"the leaf comes back with the caller's spelling of the version (`{norm(x)}` unmasked) and input_script_sig adds the parity to it: for an odd version the control byte claims the wrong parity or the wrong version, and the library's own control block does not verify")


def rule_spliced_key_size(ctx: Ctx, rep: Report) -> None:
    """C12.spliced_key_size: an x-only key that is spliced behind a prefix byte
    (`b"\\x02" + key`) and handed on unchecked is 32 bytes *because the
    coercion says so*: `bytes_from_octets(key, 32)`. Without the size a 31-byte
    key is spliced into a 32-byte "compressed key" that libsecp256k1 parses as
    another x -- an internal key that is not one is answered."""
    rule = "C12.spliced_key_size"
    mi = ctx.module(T)
    n = 0
    for fi in sorted(mi.functions.values(), key=lambda f: f.qualname):
        for a in own_nodes(fi.node):
            if not (isinstance(a, ast.Assign) and isinstance(a.value, ast.Call) and call_name(a.value) == "bytes_from_octets" and isinstance(a.targets[0], ast.Name)):
                continue
            nm = a.targets[0].id
            spliced = [b for b in own_nodes(fi.node) if isinstance(b, ast.BinOp) and isinstance(b.op, ast.Add) and
                       ((isinstance(b.left, ast.Constant) and isinstance(b.left.value, bytes) and isinstance(b.right, ast.Name) and b.right.id == nm))]
            if not spliced:
                continue
            n += 1
            sized = len(a.value.args) >= 2 or any(k.arg in ("out_size", "size") for k in a.value.keywords)
            rep.ob(rule, f"{fi.qualname}:{nm}", sized, fi.where(a), f"coerced to a fixed size ({norm(a.value.args[1]) if len(a.value.args) >= 2 else 'keyword'}) before it is spliced" if sized else
                   f"`{norm(a)}` takes any length, and `{norm(spliced[0])}` splices it behind a prefix byte: a short key becomes a different 33-byte key instead of being refused")
    rep.floor(rule, 1)


def rule_control(ctx: Ctx, rep: Report) -> None:
    """C12.control: control block size rows and the engine gate (shared with C08)."""
    from rules.C08 import rule_sig_rules
    from sa.report import Report as R2
    r2 = R2("C12", rep.tier)
    rule_sig_rules(ctx, r2)
    for o in r2.obs:
        if o.instance.startswith("control") or o.instance in ("leaf_version_mask", "leaf_version_c0", "annex"):
            rep.ob("C12.control", o.instance, o.held, o.site, o.detail)
    mt = ctx.const(T, "MAX_TREE_DEPTH")
    rep.ob("C12.control", "MAX_TREE_DEPTH", mt == 128, "btclib/script/taproot.py:1", f"MAX_TREE_DEPTH = {mt!r}")
    av = ctx.func(f"{T}.assert_valid_control_block")
    rep.ob("C12.control", "assert_valid_control_block", any("% 32" in c.subject and c.op == "!=" and c.value == 0 for c in refusal_constraints(ctx, av)), av.where(), "(len - 1) % 32 != 0 refused")


def rule_params_forwarded_(ctx: Ctx, rep: Report) -> None:
    """C12.params_forwarded: a parameter is handed on to callees that have a parameter of the same name (see sigcommon.rule_params_forwarded)."""
    from rules.sigcommon import rule_params_forwarded
    rule_params_forwarded(ctx, rep, "C12.params_forwarded", ('btclib.script.taproot',), 10)


def rule_loose_to_strict_(ctx: Ctx, rep: Report) -> None:
    """C12.loose_to_strict: a loose-typed parameter reaches a strict-typed helper only converted (see sigcommon.rule_loose_to_strict)."""
    from rules.sigcommon import rule_loose_to_strict
    rule_loose_to_strict(ctx, rep, "C12.loose_to_strict", ('btclib.script.taproot',), 1)


def rule_coercion_used_(ctx: Ctx, rep: Report) -> None:
    """C12.coercion_used: a conversion of a parameter that is read again is kept (see sigcommon.rule_coercion_used)."""
    from rules.sigcommon import rule_coercion_used
    rule_coercion_used(ctx, rep, "C12.coercion_used", ('btclib.script.taproot',))


def rule_leaf_as_committed(ctx: Ctx, rep: Report) -> None:
    """C12.leaf_as_committed: the leaf a one-leaf tree hands out (and the control
    byte is later built from) carries the leaf version the tapleaf hash commits
    to -- the same expression, masked once. A leaf handed out as the caller wrote
    it, beside a hash over the masked version, gives a control block whose first
    byte is parity + an odd version: the library's own proof does not check."""
    from sa.canon import expand
    rule = "C12.leaf_as_committed"
    fi = ctx.func(f"{T}._tree_helper")
    hs = [c for c in own_nodes(fi.node) if isinstance(c, ast.Call) and call_name(c) == "leaf_hash" and c.args]
    rets = [r for r in own_nodes(fi.node) if isinstance(r, ast.Return) and r.value is not None]
    if len(hs) != 1 or len(rets) != 1:
        rep.unknown(rule, "_tree_helper:shape", fi.where(), f"{len(hs)} leaf_hash calls, {len(rets)} returns")
        return
    vx = VX.of(fi)
    cb: dict[str, str] = {}
    committed = norm(hs[0].args[0])
    for v_ in vx.value_of(hs[0]):
        if VX.has(v_, "leaf_hash($$cv, $$x)", cb):
            committed = cb["$$cv"]
    b: dict[str, str] = {}
    ok = False
    detail = f"returns `{norm(rets[0].value)[:80]}`"
    if vx.ret is not None and VX.has(vx.ret, "([(($$v, $$s), $$p)], $$h)", b):
        handed = b.get("$$v", "")
        ok = str(handed) == str(committed)
        detail = f"hash over `{committed}`, leaf handed out with `{handed}`"
        # masked: the committed version, locals inlined, carries the mask
        masked = "& 254" in str(committed)
        rep.ob(rule, "_tree_helper:masked", masked, fi.where(hs[0]), "the parity bit is masked out of the committed version" if masked else "the committed leaf version keeps its lowest bit, which is the control byte's parity bit")
    else:
        detail += ": the leaf is not rebuilt from the masked version"
    rep.ob(rule, "_tree_helper:same_version", ok, fi.where(rets[0]), detail)
    rep.floor(rule, 2)


def rule_node_arity(ctx: Ctx, rep: Report) -> None:
    """C12.node_arity: the output key commits to the tree the caller wrote: a node
    is a leaf (one element) or a branch of exactly two subtrees. tree_helper
    reads `script_tree[0]` and `script_tree[1]` of a branch only past a refusal
    of every other length -- else the third subtree of a three-element node is
    silently left out of the commitment, and an empty node is an IndexError."""
    from sa.ranges import refusal_constraints, has
    rule = "C12.node_arity"
    fi = ctx.func(f"{T}.tree_helper")
    p0 = fi.params()[0]
    cs = refusal_constraints(ctx, fi)
    g = ctx.cfg(fi)
    gate = has(cs, f"len({p0})", "!=", 2)
    rep.ob(rule, "tree_helper:refusal", gate is not None, fi.where(), "a node whose length is not 2 (and not 1) is refused" if gate is not None else
           f"no refusal of a branch whose length is not 2 (refusals: {[c.show() for c in cs][:4]}): a third subtree is dropped from the commitment")
    reads = [x for x in own_nodes(fi.node) if isinstance(x, ast.Subscript) and isinstance(x.value, ast.Name) and x.value.id == p0 and ctx.fold(x.slice, fi.module) == 1]
    if gate is not None and gate.test_id >= 0:
        for x in reads:
            ok = g.path_avoiding(g.nodes_containing(x), [gate.test_id]) is None
            rep.ob(rule, "tree_helper:read_after_refusal", ok, fi.where(x), f"`{norm(x)}` is read past the refusal")
    rep.floor(rule, 1)


def rule_leaf_version_masked(ctx: Ctx, rep: Report) -> None:
    """C12.leaf_version_masked: the tapleaf hash commits to the leaf version with
    its lowest bit cleared (that bit of the control byte is the output key's
    parity): every `leaf_hash(version, ...)` in the taproot module is handed a
    version that was masked with 0xFE -- in the expression, or by an `&=` of the
    same local. A short cut that hashes the version as written makes the
    tweaked private key another key than the output key for 0xC1."""
    from sa.canon import expand
    rule = "C12.leaf_version_masked"
    n = 0
    for q, fi in sorted(ctx.prog.functions.items()):
        if not q.startswith(T + ".") or fi.name == "leaf_hash":
            continue
        for c in own_nodes(fi.node):
            if isinstance(c, ast.Call) and call_name(c) == "leaf_hash" and c.args:
                n += 1
                v = c.args[0]
                text = str(expand(fi, v)).replace(" ", "").lower()
                masked = "&0xfe" in text or "&254" in text or any(
                    isinstance(a, ast.AugAssign) and isinstance(a.op, ast.BitAnd) and norm(a.target) == norm(v) and ctx.fold(a.value, fi.module) == 0xFE and a.lineno < c.lineno for a in own_nodes(fi.node))
                rep.ob(rule, f"{q}:leaf_hash", masked, fi.where(c), "the version is masked with 0xFE" if masked else
                       f"`{norm(c)[:60]}` hashes the leaf version as it was written: for an odd version this is another leaf than the one the builder and the verifier commit to")
    rep.floor(rule, 2)


def rule_internal_key_unaltered(ctx: Ctx, rep: Report) -> None:
    """C12.internal_key_unaltered: the internal key's octets go unproven into a
    `PubKeyData(..., check_validity=False)` because whatever they are handed to
    next proves them a point -- *those* octets. They are therefore the octets
    `_sec_from_key` answered, whole: a slice of them behind a fresh prefix is a
    different, well-formed key, and what was wrong with the caller's (a y off
    the curve, a prefix that is none) is never seen by anything."""
    rule = "C12.internal_key_unaltered"
    fi = ctx.func(f"{T}._output_pubkey_and_internal_key")
    sites = [c for c in own_nodes(fi.node) if isinstance(c, ast.Call) and call_name(c) == "PubKeyData" and c.args
             and any(k.arg == "check_validity" and isinstance(k.value, ast.Constant) and k.value.value is False for k in c.keywords)]
    sec_locals = {d.targets[0].id for d in own_nodes(fi.node) if isinstance(d, ast.Assign) and isinstance(d.targets[0], ast.Name) and isinstance(d.value, ast.Call) and call_name(d.value) == "_sec_from_key"}
    n = 0
    for c in sites:
        a = c.args[0]
        from_key = any((isinstance(x, ast.Call) and call_name(x) == "_sec_from_key") or (isinstance(x, ast.Name) and x.id in sec_locals) for x in ast.walk(a))
        if not from_key:
            continue  # a constant of the module (the NUMS point): nothing of the caller's in it
        n += 1
        whole = (isinstance(a, ast.Call) and call_name(a) == "_sec_from_key") or (isinstance(a, ast.Name) and a.id in sec_locals)
        rep.ob(rule, "_output_pubkey_and_internal_key:unproven_octets", whole, fi.where(c), "the unproven octets are the key's own, whole" if whole else
               f"`{norm(c)[:70]}` is built from a part of the caller's octets: what is proved a point later is not the key that was handed in")
    rep.floor(rule, 1)


def rule_hex_pushes_stay_data(ctx: Ctx, rep: Report) -> None:
    """C12.hex_pushes_stay_data: in a leaf script written as a list, a string is an
    op code *name* (it starts with OP_) or the hex of a push -- `taproot.parse`
    spells a two-byte push of 0x10 as "10". The serializer looks a string up in
    the op code table as it is, and under no other spelling of it: with the
    prefix made optional, "10".."16" and "1ADD" are op codes, and the leaf the
    output key commits to is not the leaf the caller wrote."""
    rule = "C12.hex_pushes_stay_data"
    fi = ctx.func("btclib.script.op_codes_tapscript._serialize_str_command")
    p0 = fi.params()[0]
    n = 0
    for x in own_nodes(fi.node):
        key = None
        if isinstance(x, ast.Subscript) and str(norm(x.value)) == "OP_CODES":
            key = x.slice
        elif isinstance(x, ast.Compare) and isinstance(x.ops[0], (ast.In, ast.NotIn)) and str(norm(x.comparators[0])) == "OP_CODES":
            key = x.left
        if key is None:
            continue
        n += 1
        ok = isinstance(key, ast.Name) and key.id == p0
        rep.ob(rule, f"_serialize_str_command:{norm(key)[:30]}", ok, fi.where(x), "looked up as written" if ok else
               f"`{norm(x)[:60]}` looks the command up under another spelling than the one written: a hex push that spells an op code name without its prefix is written as that op code")
    rep.floor(rule, 2)


REDUCERS = {"bytes_from_prv_key_int": "reduces its scalar mod n without refusing 0 or a value >= n"}


def rule_scalar_validated_before_reduction(ctx: Ctx, rep: Report) -> None:
    """C12.scalar_validated_before_reduction: `bytes_from_prv_key_int` multiplies G by
    its scalar *reduced mod n* -- it is the inner layer, handed a q some
    validator (`int_from_prv_key`, `prv_keyinfo_from_prv_key`,
    `scalar_from_prv_key`, a key object's own field) has already held to
    1..n-1. A caller's loose-typed key parameter (Key, PrvKey, Integer, Octets)
    is never handed to it as it came: n + 5 would be answered as the key 5, and
    the output key an internal key of n + 5 commits to is somebody else's."""
    from rules.sigcommon import LOOSE_ALIASES, _ann_text, _rebound_before
    rule = "C12.scalar_validated_before_reduction"
    n = 0
    for q, fi in sorted(ctx.prog.functions.items()):
        if not q.startswith(("btclib.to_pub_key.", "btclib.script.taproot.", "btclib.to_prv_key.", "btclib.key.")):
            continue
        a = fi.node.args
        loose = {p_.arg: _ann_text(p_.annotation) for p_ in a.posonlyargs + a.args + a.kwonlyargs if p_.annotation is not None and _ann_text(p_.annotation).split("|")[0] in set(LOOSE_ALIASES) | {"Key"}}
        for c in own_nodes(fi.node):
            if isinstance(c, ast.Call) and call_name(c) in REDUCERS and c.args:
                n += 1
                x = c.args[0]
                raw = isinstance(x, ast.Name) and x.id in loose and not _rebound_before(fi, x.id, c)
                rep.ob(rule, f"{q}->{call_name(c)}", not raw, fi.where(c), "the scalar was validated (or is a validated object's field)" if not raw else
                       f"`{norm(c)[:60]}` hands `{x.id}: {loose[x.id]}` to a function that {REDUCERS[call_name(c)]}: an out-of-range key is answered as another key")
    rep.floor(rule, 2)


def rule_pushes_are_script_pushes(ctx: Ctx, rep: Report) -> None:
    """C12.pushes_are_script_pushes: a data element of a leaf script is written as a
    *script push* (a length byte below 76, then OP_PUSHDATA1/2/4), not as a
    compact-size string: the two agree up to 75 bytes and nowhere after. The
    tapscript serializer writes its bytes commands with the script push helper;
    `var_bytes.serialize` appears nowhere in it."""
    rule = "C12.pushes_are_script_pushes"
    fi = ctx.func(f"{T}.serialize")
    vb = [c for c in own_nodes(fi.node) if isinstance(c, ast.Call) and str(norm(c.func)) in ("var_bytes.serialize", "var_int.serialize")]
    rep.ob(rule, "serialize:no_compact_size", not vb, fi.where(vb[0] if vb else None), "no compact-size writer in the script serializer" if not vb else
           f"`{norm(vb[0])[:50]}` writes a push with a compact-size length: from 76 bytes on that is not a push but other op codes (80 bytes begin with OP_SUCCESS80)")
    pushes = [c for c in own_nodes(fi.node) if isinstance(c, ast.Call) and call_name(c) == "_serialize_bytes_command"]
    rep.ob(rule, "serialize:push_helper", bool(pushes), fi.where(), "bytes commands go through the script push helper")
    rep.floor(rule, 2)


def rule_key_read_one_way(ctx: Ctx, rep: Report) -> None:
    """C12.key_read_one_way: `output_pubkey`, `input_script_sig` and `output_prvkey`
    take the same internal key in the same spellings, and one function
    (`_output_pubkey_and_internal_key`, `_sec_from_key` under it) reads them:
    32 octets are a private key to all three. Each wrapper hands the caller's
    key on as it came -- re-spelt in one of them (32 octets prefixed with 02),
    the output key that wrapper answers is not the one the other two build
    their control block and their tweaked private key for."""
    from rules.sigcommon import _rebound_before
    rule = "C12.key_read_one_way"
    n = 0
    for q, fi in sorted(ctx.prog.functions.items()):
        if not q.startswith(T + ".") or fi.name.startswith("_"):
            continue
        params = fi.params()
        for c in own_nodes(fi.node):
            if isinstance(c, ast.Call) and call_name(c) == "_output_pubkey_and_internal_key" and c.args:
                n += 1
                x = c.args[0]
                ok = isinstance(x, ast.Name) and x.id in params and not _rebound_before(fi, x.id, c)
                rep.ob(rule, f"{fi.name}:key", ok, fi.where(c), f"`{norm(x)}` is handed on as the caller spelled it" if ok else
                       f"`{fi.name}` re-spells its key before `_output_pubkey_and_internal_key` reads it (`{norm(x)}`): the sibling functions read the caller's spelling another way")
    rep.floor(rule, 2)


def rule_key_lengths_admitted(ctx: Ctx, rep: Report) -> None:
    """C12.key_lengths_admitted: `_sec_from_key` reads 32 octets as a *private* key
    because `_sec_from_pub_key` refuses them: the two functions divide the
    spellings of a key between them. No answer of `_sec_from_pub_key` is given
    under a test that the octets are 32 long -- an x-only reading there makes
    the same key name two output keys by spelling, and a control block carry
    the private key."""
    rule = "C12.key_lengths_admitted"
    fi = ctx.func("btclib.to_pub_key._sec_from_pub_key")
    g = ctx.cfg(fi)
    rets = sorted((r for r in own_nodes(fi.node) if isinstance(r, ast.Return)), key=lambda r: r.lineno)
    n = 0
    for r in rets:
        facts = [(t, pol) for t, pol in g.facts_at_ast(r)]
        bad = [t for t, pol in facts if pol and "len(" in t and "== 32" in t.replace("0x20", "32")]
        n += 1
        rep.ob(rule, f"_sec_from_pub_key:return@L{r.lineno - fi.node.lineno}", not bad, fi.where(r), "not an answer for 32 octets" if not bad else
               f"answers under `{bad[0]}`: 32 octets are a private key to `_sec_from_key`, and now a public one here")
    rep.floor(rule, 2)


def rule_internal_key_absent_is_none(ctx: Ctx, rep: Report) -> None:
    """C12.internal_key_absent_is_none: "no internal key" is None -- then, and only then,
    the output commits to BIP341's unspendable point. The taproot module
    decides the key's presence with `is None` / `is not None`: by truthiness
    an empty or a zero key, which the caller *passed* and the key reader
    refuses, is silently replaced by the point nobody can spend from."""
    rule = "C12.internal_key_absent_is_none"
    names = {"internal_pubkey", "internal_prvkey", "internal_key"}
    n = 0
    for q, fi in sorted(ctx.prog.functions.items()):
        if not q.startswith("btclib.script.taproot."):
            continue
        mine = names & set(fi.params())
        for t in own_nodes(fi.node):
            tests: list[ast.AST] = []
            if isinstance(t, (ast.If, ast.IfExp, ast.While)):
                tests = [t.test]
            elif isinstance(t, ast.BoolOp):
                tests = list(t.values)
            for e in tests:
                inner = e.operand if isinstance(e, ast.UnaryOp) and isinstance(e.op, ast.Not) else e
                if isinstance(inner, ast.Name) and inner.id in mine:
                    n += 1
                    rep.ob(rule, f"{q}:{norm(e)}", False, fi.where(e), f"`{norm(e)}` reads an empty or zero `{inner.id}` as none at all: the output silently commits to the unspendable point")
                elif isinstance(inner, ast.Compare) and isinstance(inner.left, ast.Name) and inner.left.id in mine and isinstance(inner.ops[0], (ast.Is, ast.IsNot)):
                    n += 1
                    rep.ob(rule, f"{q}:{norm(inner)}", True, fi.where(e), "presence decided by `is None`")
    rep.floor(rule, 2)


def rule_tree_depth_bounded(ctx: Ctx, rep: Report) -> None:
    """C12.tree_depth_bounded: the verifier refuses a control block longer than
    33 + 32 * MAX_TREE_DEPTH; the builder refuses the tree that would need
    one -- `tree_helper` raises under a test that reads MAX_TREE_DEPTH -- so
    every leaf the library commits to is one its own control block proves."""
    rule = "C12.tree_depth_bounded"
    fi = ctx.func(f"{T}.tree_helper")
    g = ctx.cfg(fi)
    ok = False
    for r in own_nodes(fi.node):
        if isinstance(r, ast.Raise) and any("MAX_TREE_DEPTH" in t and pol for t, pol in g.facts_at_ast(r)):
            ok = True
    rep.ob(rule, "tree_helper:refuses_too_deep", ok, fi.where(), "a path longer than 32 * MAX_TREE_DEPTH is refused" if ok else
           "tree_helper builds merkle paths of any length: a leaf deeper than MAX_TREE_DEPTH is committed to and cannot be proven")
    co = ctx.func(f"{T}.check_output_pubkey")
    ok2 = any("MAX_TREE_DEPTH" in norm(t) for t, pol, _ in ctx.refusals(co))
    rep.ob(rule, "check_output_pubkey:refuses_too_long", ok2, co.where(), "a control block past 33 + 32 * MAX_TREE_DEPTH is refused")
    rep.floor(rule, 2)


RULES = [
    ("C12.tree_depth_bounded", rule_tree_depth_bounded),

    ("C12.internal_key_absent_is_none", rule_internal_key_absent_is_none),

    ("C12.key_lengths_admitted", rule_key_lengths_admitted),

    ("C12.key_read_one_way", rule_key_read_one_way),

    ("C12.scalar_validated_before_reduction", rule_scalar_validated_before_reduction),
    ("C12.pushes_are_script_pushes", rule_pushes_are_script_pushes),

    ("C12.hex_pushes_stay_data", rule_hex_pushes_stay_data),

    ("C12.leaf_version_masked", rule_leaf_version_masked),
    ("C12.internal_key_unaltered", rule_internal_key_unaltered),

    ("C12.node_arity", rule_node_arity),
    ("C12.leaf_as_committed", rule_leaf_as_committed),
    ("C12.loose_to_strict", rule_loose_to_strict_),
    ("C12.coercion_used", rule_coercion_used_),

    ("C12.params_forwarded", rule_params_forwarded_),
    ("C12.tweak", rule_tweak),
    ("C12.sibling_order", rule_sibling_order),
    ("C12.shapes", rule_shapes),
    ("C12.control", rule_control),
    ("C12.builder_byte", rule_builder_byte),
    ("C12.spliced_key_size", rule_spliced_key_size),
]

CONTROLS = [
    {"rule": "C12.spliced_key_size", "name": "the internal key is coerced without its size", "module": T,
     "edit": lambda ctx: M.sub_expr(ctx, f"{T}.output_pubkey_from_merkle_root", M.is_text("bytes_from_octets(internal_pubkey, 32)"), "bytes_from_octets(internal_pubkey)")},
    {"rule": "C12.builder_byte", "name": "the leaf keeps the caller's spelling of its version", "module": T,
     "edit": lambda ctx: M.sub_expr(ctx, f"{T}._tree_helper", M.is_text("leaf_version &= 254"), "pass")},
    {"rule": "C12.tweak", "name": "tweak equal to n accepted", "module": T,
     "edit": lambda ctx: M.sub_expr(ctx, f"{T}._tap_tweak", M.is_text("t >= secp256k1.n"), "t > secp256k1.n")},
    {"rule": "C12.tweak", "name": "check_output_pubkey computes its own tweak", "module": T,
     "edit": lambda ctx: M.sub_expr(ctx, f"{T}.check_output_pubkey", M.is_text("_tap_tweak(p_bytes, k)"), "int.from_bytes(tagged_hash(b'TapTweak', p_bytes + k), 'big')")},
    {"rule": "C12.sibling_order", "name": "verifier orders siblings with <= swapped arms", "module": T,
     "edit": lambda ctx: M.sub_expr(ctx, f"{T}.check_output_pubkey", M.is_text("k < e"), "k > e")},
    {"rule": "C12.sibling_order", "name": "builder never swaps", "module": T,
     "edit": lambda ctx: M.sub_expr(ctx, f"{T}.tree_helper", M.is_text("right_h < left_h"), "right_h > left_h")},
    {"rule": "C12.shapes", "name": "verifier ignores the parity bit", "module": T,
     "edit": lambda ctx: M.sub_expr(ctx, f"{T}.check_output_pubkey", lambda n: isinstance(n, ast.BoolOp) and "Q[1] % 2" in norm(n), "Q[0] == int.from_bytes(q, 'big')")},
    {"rule": "C12.shapes", "name": "private key never negated", "module": T,
     "edit": lambda ctx: M.sub_expr(ctx, f"{T}._tweaked_prvkey", M.is_text("internal_prvkey if has_even_y else secp256k1.n - internal_prvkey"), "internal_prvkey")},
]
