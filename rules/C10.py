"""C10 -- what the library builds and signs, its own engine accepts; tampering is rejected.

The build-sign-finalize-extract-verify closure is an end-to-end value
property: not decided. Decided, narrowly: the hash type a signer commits to is
the one it appends to the signature (same reaching definition), and the one
the finalizer checks; every way finalize produces a spend is preceded by
verification of what it pushes; a Python-arm signature is returned only
through the post-sign check; message roles compare the address-derived hash
before accepting.
"""

from __future__ import annotations

import ast

from sa import mutate as M
from sa import pattern as PT
from sa import values as VX
from sa.ctx import Ctx
from sa.loader import AnalysisError, call_name, norm, own_nodes, parent
from sa.ranges import refusal_constraints
from sa.report import Report

NOTES = ("C10: decides only structural necessary conditions of the closure -- hash-type consistency between digest and "
         "signature suffix, verify-before-finalize on all three finalize paths, checked return of Python-arm signatures, "
         "address comparison in the message roles; that the engine accepts every spend the library builds is not decided.")
P = "btclib.psbt.psbt"


def rule_same_hash_type(ctx: Ctx, rep: Report) -> None:
    """C10.same_hash_type: the digest's hash type is the signature suffix's."""
    rule = "C10.same_hash_type"
    fi = ctx.func(f"{P}._sign_ecdsa_input")
    dg = [c for c in own_nodes(fi.node) if isinstance(c, ast.Call) and call_name(c) == "ecdsa_sig_hash"]
    kw = next((norm(k.value) for c in dg for k in c.keywords if k.arg == "hash_type"), None)
    sfx = [n for n in own_nodes(fi.node) if isinstance(n, ast.Assign) and "partial_sigs[" in norm(n.targets[0])]
    suffix_var = None
    if sfx:
        tb = [c for c in ast.walk(sfx[0].value) if isinstance(c, ast.Call) and call_name(c) == "to_bytes"]
        suffix_var = norm(tb[0].func.value) if tb else None
    defs = [n for n in own_nodes(fi.node) if isinstance(n, ast.Assign) and norm(n.targets[0]) == (kw or "")]
    ok = kw is not None and kw == suffix_var and len(defs) == 1
    rep.ob(rule, "ecdsa:digest_and_suffix", ok, fi.where(), f"digest hash_type={kw}, suffix {suffix_var}.to_bytes(1): one definition" if ok else f"digest uses {kw}, the suffix uses {suffix_var}")
    if defs:
        rep.ob(rule, "ecdsa:default_ALL", norm(defs[0].value) == "ALL if psbt_in.sig_hash_type is None else psbt_in.sig_hash_type", fi.where(), f"{kw} = {norm(defs[0].value)}")
    rep.ob(rule, "ecdsa:suffix_one_byte", bool(sfx) and norm(sfx[0].value) == f"sig + {suffix_var}.to_bytes(1, 'big')", fi.where(), "signature || one hash-type byte")
    ts = ctx.func(f"{P}._taproot_signature")
    txt = PT.text(ts)
    vx = VX.of(ts)
    rep.ob(rule, "taproot:suffix", vx.returns("$$sig + (psbt_in.sig_hash_type or DEFAULT).to_bytes(1, 'big') if psbt_in.sig_hash_type or DEFAULT else $$sig")
           or vx.returns("$$sig + psbt_in.sig_hash_type.to_bytes(1, 'big') if psbt_in.sig_hash_type else $$sig"), ts.where(), "DEFAULT appends nothing; any other type is appended")
    th = ctx.func(f"{P}._taproot_sig_hash")
    txt = PT.text(th)
    vx = VX.of(th)
    rep.ob(rule, "taproot:digest_default", vx.anywhere("psbt_in.sig_hash_type or DEFAULT if hash_type is None else hash_type"), th.where(), "the digest's default is the same `sig_hash_type or DEFAULT`")
    for q in (f"{P}._sign_taproot_key_path", f"{P}._sign_taproot_script_path"):
        f2 = ctx.func(q)
        calls = [c for c in own_nodes(f2.node) if isinstance(c, ast.Call) and call_name(c) == "taproot_sig_hash"]
        st = [n for n in own_nodes(f2.node) if isinstance(n, ast.Assign) and isinstance(n.value, ast.Call) and call_name(n.value) == "_taproot_signature"]
        ok = bool(calls) and not any(k.arg == "hash_type" for c in calls for k in c.keywords) and bool(st) and norm(st[0].value.args[1]) == "psbt_in"
        rep.ob(rule, f"{f2.name}:default_digest_and_suffix", ok, f2.where(), "digest computed with the input's own type and suffix written by _taproot_signature(sig, psbt_in)")
    at = ctx.func(f"{P}._assert_taproot_sig_hash_type")
    txt = PT.text(at)
    vx = VX.of(at)
    rep.ob(rule, "taproot:finalizer_reads_back", vx.anywhere("(psbt_in.sig_hash_type or DEFAULT) != (signature[-1] if len(signature) == 65 else DEFAULT)"), at.where(), "the finalizer reads the suffix rule back and compares with the input's type")


def rule_finalize_verifies(ctx: Ctx, rep: Report) -> None:
    """C10.finalize_verifies: nothing is finalized from unverified signatures."""
    rule = "C10.finalize_verifies"
    fz = ctx.func(f"{P}.finalize")
    g = ctx.cfg(fz)
    fin = [c for c in own_nodes(fz.node) if isinstance(c, ast.Call) and call_name(c) == "_finalized_input"]
    need = [c for c in own_nodes(fz.node) if isinstance(c, ast.Call) and call_name(c) in ("_assert_sig_hash_type", "_assert_partial_sigs_verify")]
    names = {call_name(c) for c in need}
    ok = bool(fin) and names == {"_assert_sig_hash_type", "_assert_partial_sigs_verify"}
    if ok:
        for nm in names:
            through = [i for c in need if call_name(c) == nm for i in g.nodes_containing(c)]
            ok &= g.path_avoiding([i for c in fin for i in g.nodes_containing(c)], through) is None
    rep.ob(rule, "ecdsa_path", ok, fz.where(), "sighash-type check and signature verification dominate _finalized_input")
    rep.ob(rule, "ecdsa_path:needs_signatures", any(c.subject == "psbt_in.partial_sigs" and c.op == "falsy" for c in refusal_constraints(ctx, fz)), fz.where(), "no signatures, no spend")
    fc = ctx.func(f"{P}._finalized_by_caller")
    g2 = ctx.cfg(fc)
    v = [c for c in own_nodes(fc.node) if isinstance(c, ast.Call) and call_name(c) == "_assert_partial_sigs_verify"]
    rep.ob(rule, "caller_path", bool(v) and any(t == "psbt_in.partial_sigs" and p for t, p in g2.facts_at_ast(v[0])), fc.where(), "a solver's spend is still held to the partial signatures the input carries")
    ft = ctx.func(f"{P}._finalized_taproot_input")
    g3 = ctx.cfg(ft)
    rets = [n for n in g3.nodes if n.kind == "stmt" and isinstance(n.ast, ast.Return)]
    ver = [n for t, pol, n in ctx.refusals(ft) if pol is False and isinstance(t, ast.Call) and call_name(t) == "verify_"]
    ok = len(rets) == 2 and len(ver) == 2 and g3.path_avoiding([r.id for r in rets], [v_.id for v_ in ver]) is None
    rep.ob(rule, "taproot_path", ok, ft.where(), "both taproot spends are returned only past ssa.verify_")
    ht = [c for c in own_nodes(ft.node) if isinstance(c, ast.Call) and call_name(c) == "_assert_taproot_sig_hash_type"]
    rep.ob(rule, "taproot_path:hash_type", len(ht) == 2, ft.where(), "each signature's hash type is held to the input's")
    rep.ob(rule, "taproot_path:leaf_key", any(c.op == "!=" and "single_leaf_key(script)" in c.subject for c in refusal_constraints(ctx, ft)), ft.where(), "a script-path signature must be by the leaf's key")
    pv = ctx.func(f"{P}._assert_partial_sigs_verify")
    rep.ob(rule, "_assert_partial_sigs_verify:refuses", any(pol is False and isinstance(t, ast.Call) and call_name(t) == "verify_" for t, pol, _ in ctx.refusals(pv)), pv.where(), "an invalid partial signature is refused")
    txt = PT.text(pv)
    vxp = VX.of(pv)
    bb: dict[str, str] = {}
    rep.ob(rule, "_assert_partial_sigs_verify:own_type", vxp.anywhere("dsa.verify_($$m, $$pk, $$s[:-1])", bb) and (vxp.anywhere("_sig_hash_from_psbt_in($$pi, $$tx, $$i, $$s[-1])", bb) or "[-1]" in bb.get("$$m", "")), pv.where(), "each signature is verified against the digest of the type it carries, minus that byte")


def rule_signed_then_checked(ctx: Ctx, rep: Report) -> None:
    """C10.signed_then_checked: the Python arm returns a signature only through its post-sign check."""
    rule = "C10.signed_then_checked"
    for q in ("btclib.ecc.dsa.sign_", "btclib.ecc.ssa.sign_"):
        fi = ctx.func(q)
        ck = ctx.prog.functions.get(f"{q}._checked")
        if ck is None:
            rep.ob(rule, q, False, fi.where(), "no _checked closure")
            continue
        rets = [n for n in own_nodes(fi.node) if isinstance(n, ast.Return) and n.value is not None]
        # python-arm returns: those that contain a call to a _sign_ primitive
        py = [r for r in rets if any(isinstance(c, ast.Call) and call_name(c) in ("_sign_", "_grind_low_r") for c in ast.walk(r.value))]
        ok = bool(py) and all(any(isinstance(c, ast.Call) and call_name(c) == "_checked" and any(x is s for s in ast.walk(c) for x in [s]) for c in ast.walk(r.value)) and _inside_checked(r.value) for r in py)
        rep.ob(rule, q, ok, fi.where(), f"{len(py)} Python-arm returns, each through _checked(...)" if ok else "a Python-arm signature is returned without the post-sign check")
        g = ctx.cfg(ck)
        inner = [c for c in own_nodes(ck.node) if isinstance(c, ast.Call) and call_name(c) in ("_abort_unless_checked", "_assert_as_valid_", "_python_verified")]
        okc = bool(inner) and any(t == "verify" and p for t, p in g.facts_at_ast(inner[0]))
        rep.ob(rule, f"{q}._checked:guard", okc, ck.where(), "the check runs under `verify` and nothing else")
        a = fi.node.args
        kd = {x.arg: d for x, d in zip(a.kwonlyargs, a.kw_defaults) if d is not None}
        kd.update({x.arg: d for x, d in zip((a.posonlyargs + a.args)[-len(a.defaults):] if a.defaults else [], a.defaults)})
        rep.ob(rule, f"{q}:verify_default", "verify" in kd and ctx.fold(kd["verify"], fi.module) is True, fi.where(), "verify defaults to True")
    sm = ctx.func("btclib.psbt_signer.sign_message")
    g = ctx.cfg(sm)
    chk = [c for c in own_nodes(sm.node) if isinstance(c, ast.Call) and call_name(c) == "assert_as_valid" and ctx.unconditional(g, c)]
    ok = bool(chk) and g.must_pass([i for c in chk for i in g.nodes_containing(c)]) is None and [norm(a) for a in chk[0].args] == [sm.params()[1], sm.params()[3], "signature"]
    rep.ob(rule, "psbt_signer.sign_message", ok, sm.where(), "a signer's message signature is returned only past bms.assert_as_valid(message, address, signature)")


def _inside_checked(e: ast.AST) -> bool:
    """Every _sign_/_grind_low_r call of the expression sits inside a _checked(...) call."""
    for c in ast.walk(e):
        if isinstance(c, ast.Call) and call_name(c) in ("_sign_", "_grind_low_r"):
            p = parent(c)
            inside = False
            while p is not None and p is not e and not isinstance(p, ast.stmt):
                if isinstance(p, ast.Call) and call_name(p) == "_checked":
                    inside = True
                    break
                if isinstance(p, ast.Lambda):
                    # the lambda itself must be an argument under _checked
                    pass
                p = parent(p)
            if not inside and not (isinstance(e, ast.Call) and call_name(e) == "_checked") and not (isinstance(e, ast.Tuple) and any(isinstance(x, ast.Call) and call_name(x) == "_checked" and any(s is c for s in ast.walk(x)) for x in e.elts)):
                return False
    return True


def rule_message_roles(ctx: Ctx, rep: Report) -> None:
    """C10.message_roles: a message signature is accepted only for the address it opens to."""
    rule = "C10.message_roles"
    B = "btclib.ecc.bms"
    for q, needle in ((f"{B}._assert_p2pkh", "hash160(pub_key)"), (f"{B}._assert_p2wpkh", "hash160(pub_key)"), (f"{B}._assert_p2wpkh_p2sh", "hash160(script_pk)")):
        fi = ctx.func(q)
        g = ctx.cfg(fi)
        hits = [n for t, pol, n in ctx.refusals(fi) if pol and isinstance(t, ast.Compare) and isinstance(t.ops[0], ast.NotEq) and needle in norm(t) and "h160" in norm(t)]
        ok = bool(hits) and g.must_pass([h.id for h in hits]) is None
        rep.ob(rule, fi.name, ok, fi.where(), f"{needle} != the address's hash refused on every path")
    av = ctx.func(f"{B}.assert_as_valid")
    g = ctx.cfg(av)
    sinks = [c for c in own_nodes(av.node) if isinstance(c, ast.Call) and call_name(c) in ("_assert_p2pkh", "_assert_p2wpkh", "_assert_p2wpkh_p2sh")]
    ok = len(sinks) == 3 and g.must_pass([i for c in sinks for i in g.nodes_containing(c)]) is None
    rep.ob(rule, "assert_as_valid:always_compares", ok, av.where(), "every normal return passes through one of the three address comparisons")
    rep.ob(rule, "assert_as_valid:recovered_key", all(any(norm(a) == "pub_key" for a in c.args) for c in sinks), av.where(), "the compared key is the one recovered from the signature")
    b3 = "btclib.bip322"
    fi = ctx.func(f"{b3}.assert_as_valid")
    txt = PT.text(fi)
    g3 = ctx.cfg(fi)
    rep.ob(rule, "bip322:to_spend_binds_address", VX.of(fi).anywhere("to_spend(msg, ScriptPubKey.from_address(addr).script)"), fi.where(), "to_spend commits to the message and the address's script")
    sc = [c for c in own_nodes(fi.node) if isinstance(c, ast.Call) and call_name(c) == "_assert_scripts"]
    bm = [c for c in own_nodes(fi.node) if isinstance(c, ast.Call) and norm(c.func) == "bms.assert_as_valid"]
    ok3 = bool(sc) and bool(bm) and g3.must_pass([i for c in sc + bm for i in g3.nodes_containing(c)]) is None
    rep.ob(rule, "bip322:always_verified", ok3, fi.where(), "every normal return passes through the script verification (or the legacy message check)")
    sh = [c for c in own_nodes(fi.node) if isinstance(c, ast.Call) and call_name(c) == "_assert_shape"]
    rep.ob(rule, "bip322:shape_checked", bool(sh) and "spend" in norm(sh[0]), fi.where(), "to_sign is held to spend to_spend")


UNUSED_PARAM_OK = {
    # (function, parameter): why it is rightly unread
    ("btclib.psbt_signer.SoftwareSigner.sign_schnorr_script_path", "leaf_hash"): "a script-path signature is made with the untweaked key whatever the leaf; the parameter is the KeyManager protocol's, for signers that must be told the leaf",
}


def rule_params_used(ctx: Ctx, rep: Report) -> None:
    """C10.params_used: in the signing path every parameter a function is handed
    is read by it. A parameter that is accepted and never read is a value the
    caller believes is in force -- the merkle root of a key-path spend, the
    sighash type, the network -- while the callee's default is: the signature
    is then for another output key (or another digest) and the library's own
    engine refuses what the library built."""
    rule = "C10.params_used"
    n = 0
    for fi in sorted(ctx.prog.functions.values(), key=lambda f: f.qualname):
        local = fi.qualname.rsplit(".", 1)[1].lower()
        in_signer_class = fi.qualname.startswith("btclib.psbt_signer.") and fi.cls is not None and any(w in fi.cls.name for w in ("Signer", "KeyManager"))
        if not (in_signer_class or (fi.qualname.startswith("btclib.psbt_signer.") and fi.cls is None and any(w in local for w in ("sign", "finaliz", "sig_hash"))) or (any(fi.qualname.startswith(p_) for p_ in ("btclib.psbt.psbt.", "btclib.bip322.", "btclib.ecc.bms."))
                                                                    and any(w in local for w in ("sign", "finaliz", "sig_hash")))):
            continue  # the signing path: the signer classes, and what signs / finalizes / computes a digest
        body = [st for st in fi.node.body if not (isinstance(st, ast.Expr) and isinstance(st.value, ast.Constant))]
        if not body or all(isinstance(st, (ast.Raise, ast.Pass)) for st in body):
            continue  # a protocol stub
        used = {x.id for x in ast.walk(fi.node) if isinstance(x, ast.Name) and isinstance(x.ctx, ast.Load)}
        for p_ in fi.params():
            if p_ in ("self", "cls") or p_.startswith("_"):
                continue
            n += 1
            why = UNUSED_PARAM_OK.get((fi.qualname, p_))
            if p_ in used:
                rep.ob(rule, f"{fi.qualname}({p_})", True, fi.where(), "read")
            elif why:
                rep.ob(rule, f"{fi.qualname}({p_})", True, fi.where(), f"reviewed: {why}")
            else:
                rep.ob(rule, f"{fi.qualname}({p_})", False, fi.where(), f"the parameter `{p_}` is accepted and never read: the caller's value is not in force, a default is")
    rep.floor(rule, 40)


def rule_bip322_first_prevout(ctx: Ctx, rep: Report) -> None:
    """C10.bip322_first_prevout: what binds a BIP322 signature to the message and
    the address is the output the *verifier* rebuilds (`to_spend`): the list of
    spent outputs starts with it and the psbt's own utxo for the first input is
    never consulted -- the list is extended from the psbt past its first entry,
    never replaced by the psbt's."""
    rule = "C10.bip322_first_prevout"
    fi = ctx.func("btclib.bip322.assert_as_valid")
    m: dict[str, str] = {}
    sol = PT.solve(fi.node, ["$spend = to_spend(msg, $spk)", "$p = list($spend.vout)"], m)
    if not sol:
        rep.unknown(rule, "assert_as_valid", fi.where(), "the rebuilt challenge and the prevout list are not in the shape this rule reads")
        return
    m = sol[1]
    pn = m["p"]
    rep.ob(rule, "starts_with_rebuilt_output", True, fi.where(sol[0][1]), "prevouts = list(to_spend(msg, script_pub_key).vout)")
    for a in own_nodes(fi.node):
        if isinstance(a, ast.Assign) and any(isinstance(t, ast.Name) and t.id == pn for t in a.targets) and a is not sol[0][1]:
            keeps = f"{m['spend']}.vout" in str(norm(a.value)) or any(isinstance(x, ast.Name) and x.id == pn for x in ast.walk(a.value))
            rep.ob(rule, f"reassigned:{norm(a)[:60]}", keeps, fi.where(a), "keeps the rebuilt output first" if keeps else
                   f"`{norm(a)}` replaces the whole list: the first spent output is then whatever the signature's own psbt declares, and a signature verifies for an address its key does not control")
        if isinstance(a, ast.AugAssign) and isinstance(a.target, ast.Name) and a.target.id == pn:
            v = a.value
            skips = isinstance(v, ast.Subscript) and isinstance(v.slice, ast.Slice) and v.slice.lower is not None and ctx.fold(v.slice.lower, fi.module) == 1
            rep.ob(rule, f"extended:{norm(a)[:60]}", skips, fi.where(a), "extended with the psbt's further inputs, its first skipped" if skips else
                   f"`{norm(a)}` appends the psbt's first utxo as well: the lists no longer line up with the inputs")


def rule_after_needs_sequence(ctx: Ctx, rep: Report) -> None:
    """C10.after_needs_sequence: miniscript's `after(n)` is satisfiable only when
    the spending input's sequence is not final (BIP65: CHECKLOCKTIMEVERIFY
    fails under 0xffffffff), so the satisfier's `_after` asks the sequence too --
    else it hands out a witness the engine refuses."""
    rule = "C10.after_needs_sequence"
    fi = ctx.func("btclib.descriptors.miniscript.SpendContext._after")
    refs = [c for c in own_nodes(fi.node) if isinstance(c, ast.Compare) and "self.sequence" in str(norm(c)) and any(ctx.fold(x, fi.module) == 0xFFFFFFFF for x in [c.left] + list(c.comparators))]
    rep.ob(rule, "_after:sequence_not_final", bool(refs), fi.where(), "the input's sequence must not be 0xffffffff" if refs else
           "`_after` does not look at the input's sequence: under a final sequence the lock time is disabled and OP_CHECKLOCKTIMEVERIFY fails")
    older = ctx.func("btclib.descriptors.miniscript.SpendContext._older")
    rep.ob(rule, "_older:version_2", "self.tx_version" in str(norm(older.node)) or "version" in str(norm(older.node)), older.where(), "older() needs a version-2 transaction (BIP68)")


def rule_sighash_commits(ctx: Ctx, rep: Report) -> None:
    """C10.sighash_commits: the tamper clause -- what a signature commits to is
    what the BIPs say, for every hash type: signer and engine share one sighash
    function, so a field dropped from the message is accepted by both and only
    shows when a signed transaction is altered afterwards. Decided by C09's
    finite case split of the BIP341 / BIP143 message builders (7 x 2 and 15
    hash-type cases), reported here under this property."""
    from rules import C09
    tmp = Report("C09", rep.tier)
    tmp.quiet = True
    for name, fn in C09.RULES:
        if name in ("C09.bip341", "C09.bip143"):
            fn(ctx, tmp)
    for o in tmp.obs:
        rep.ob("C10.sighash_commits", f"{o.rule.split('.')[1]}:{o.instance}", o.held, o.site, o.detail)
    rep.floor("C10.sighash_commits", 25)


def rule_params_forwarded_(ctx: Ctx, rep: Report) -> None:
    """C10.params_forwarded: a parameter is handed on to callees that have a parameter of the same name (see sigcommon.rule_params_forwarded)."""
    from rules.sigcommon import rule_params_forwarded
    rule_params_forwarded(ctx, rep, "C10.params_forwarded", ('btclib.psbt_signer', 'btclib.bip322', 'btclib.tx_builder'), 40)


def rule_witness_order(ctx: Ctx, rep: Report) -> None:
    """C10.witness_order: a combinator's script runs its arguments left to
    right and each consumes the witness from the *top* of the stack, so what
    feeds the first argument comes *last* in the witness: in the satisfier's
    `_and_input`, `_or_input` and `_andor_input` every `_both(a, b)` that joins
    two arguments' stacks puts the first argument's (the function's first
    `_Inputs` parameter) second. Swapped, each sub-script is fed the other's
    input and the engine refuses what `satisfy` handed out."""
    rule = "C10.witness_order"
    MSQ = "btclib.descriptors.miniscript"
    n = 0
    for name in ("_and_input", "_or_input", "_andor_input"):
        fi = ctx.func(f"{MSQ}.{name}")
        subs = [p_.arg for p_ in fi.node.args.args if p_.annotation is not None and str(norm(p_.annotation)) == "_Inputs"]
        if len(subs) < 2:
            rep.unknown(rule, name, fi.where(), "the arguments' _Inputs parameters are not found")
            continue
        first = subs[0]
        for c in own_nodes(fi.node):
            if not (isinstance(c, ast.Call) and call_name(c) == "_both" and len(c.args) == 2):
                continue
            bases = [a.value.id if isinstance(a, ast.Attribute) and isinstance(a.value, ast.Name) else None for a in c.args]
            if None in bases or bases[0] == bases[1] or not set(bases) <= set(subs):
                continue
            n += 1
            # the earlier-run argument's stack comes second; between two later ones, the later-run comes first
            order_ok = subs.index(bases[1]) < subs.index(bases[0])
            rep.ob(rule, f"{name}:{norm(c)}", order_ok, fi.where(c), f"{bases[1]} runs before {bases[0]} and its input is on top" if order_ok else
                   f"`{norm(c)}` puts the stack of `{bases[0]}` under that of `{bases[1]}`, but `{bases[0]}` runs first and reads the top: each is fed the other's input")
    rep.floor(rule, 8)


def rule_every_leaf_named(ctx: Ctx, rep: Report) -> None:
    """C10.every_leaf_named: the Updater names, for each key, *every* leaf the
    key signs in (PSBT_IN_TAP_BIP32_DERIVATION's leaf hashes), and the signer
    signs exactly the leaves named: the de-duplication that builds the list
    skips a leaf hash only if that same hash is already in it -- never because
    the list is simply not empty."""
    rule = "C10.every_leaf_named"
    fi = ctx.func("btclib.descriptors.descriptors.TrDescriptor._taproot_hd_key_paths")
    m: dict[str, str] = {}
    app = PT.find(fi.node, "$hs.append($h)", m)
    if app is None:
        rep.unknown(rule, "_taproot_hd_key_paths", fi.where(), "no `<list>.append(<hash>)`: shape not recognised")
        return
    g = ctx.cfg(fi)
    facts = g.facts_at_ast(app)
    guarded_by_membership = PT.fact(facts, f"{m['h']} not in {m['hs']}") or PT.fact(facts, f"{m['h']} in {m['hs']}", False)
    other_guard = [str(t) for t, p_ in facts if m["hs"] in str(t) and not (m["h"] in str(t))]
    ok = guarded_by_membership or not any(m["hs"] in str(t) for t, _ in facts)
    rep.ob(rule, "leaf_hash_appended_unless_present", ok and not (other_guard and not guarded_by_membership), fi.where(app),
           "a leaf hash is skipped only when it is already listed" if ok else
           f"the leaf hash is appended under `{other_guard}`: a key in two different leaves is given the first one only, and the signer never signs the second")


def rule_engine_admits(ctx: Ctx, rep: Report) -> None:
    """C10.engine_admits: two engine rules on which the acceptance of what the
    library builds depends (decided by C08's analyses, reported here for the
    spends the library builds): an empty signature is not charged to the
    tapscript sigops budget -- a k-of-n multi_a leaf holds n-k of them -- and
    the p2wsh witness script is not held to the 520-byte element limit -- a
    16-key wsh(multi()) is 547 bytes."""
    from rules.C08 import initial_stack_limits, sigops_charge
    sigops_charge(ctx, rep, "C10.engine_admits")
    initial_stack_limits(ctx, rep, "C10.engine_admits")


def rule_memo_key_complete_(ctx: Ctx, rep: Report) -> None:
    """C10.memo_key_complete: a value computed once and kept is reset inside every loop whose variable it reads (see sigcommon.rule_memo_key_complete)."""
    from rules.sigcommon import rule_memo_key_complete
    rule_memo_key_complete(ctx, rep, "C10.memo_key_complete", ('btclib.psbt', 'btclib.psbt_signer', 'btclib.bip322', 'btclib.script'))


def rule_redeem_script_pushed(ctx: Ctx, rep: Report) -> None:
    """C10.redeem_script_pushed: a p2sh input is spent by pushing its redeem
    script last in the script_sig, whatever the redeem script is -- a wrapped
    segwit program, a multisig, a bare p2pkh (sh(pkh())). Every script_sig
    `_finalized_input` answers is built with the input's redeem script (empty
    when there is none): an arm that leaves it out finalizes a spend the
    engine refuses ("false top stack element")."""
    from sa.canon import expand
    rule = "C10.redeem_script_pushed"
    fi = ctx.func("btclib.psbt.psbt._finalized_input")
    p0 = fi.params()[0]
    rs = {a.targets[0].id for a in own_nodes(fi.node) if isinstance(a, ast.Assign) and isinstance(a.targets[0], ast.Name) and f"{p0}.redeem_script" in str(norm(a.value))}
    rs |= {a.target.id for a in own_nodes(fi.node) if isinstance(a, ast.AnnAssign) and isinstance(a.target, ast.Name) and a.value is not None and f"{p0}.redeem_script" in str(norm(a.value))}
    n = 0
    for r in own_nodes(fi.node):
        if isinstance(r, ast.Return) and isinstance(r.value, ast.Tuple) and len(r.value.elts) == 2:
            n += 1
            text = str(expand(fi, r.value.elts[0]))
            names = {x.id for x in ast.walk(ast.parse(text, mode="eval")) if isinstance(x, ast.Name)}
            ok = bool(names & rs) or f"{p0}.redeem_script" in text
            rep.ob(rule, f"_finalized_input:return@{n}", ok, fi.where(r), "the script_sig carries the redeem script (if any)" if ok else
                   f"the script_sig `{text[:80]}` is built without the input's redeem script: a p2sh-wrapped input of this kind is finalized into a spend its own engine refuses")
    rep.floor(rule, 4)


def rule_control_blocks_prove(ctx: Ctx, rep: Report) -> None:
    """C10.control_blocks_prove: a script-path spend the library builds carries the
    control block the library built, and its own engine checks it: the merkle
    path a leaf is handed grows from the leaf upwards (each level's sibling
    *appended*), and builder and verifier order each pair of hashes the same
    way (C12.sibling_order, reported here for the acceptance clause)."""
    from rules import C12
    tmp = Report("C12", rep.tier)
    tmp.quiet = True
    C12.rule_sibling_order(ctx, tmp)
    for o in tmp.obs:
        rep.ob("C10.control_blocks_prove", o.instance, o.held, o.site, o.detail)
    rep.floor("C10.control_blocks_prove", 4)


def rule_multi_a_witness_order(ctx: Ctx, rep: Report) -> None:
    """C10.multi_a_witness_order: multi_a() writes `<k1> CHECKSIG <k2> CHECKSIGADD
    ...`, so the first key's signature is consumed first and lies on *top*: the
    witness lists the signatures in the reverse order of the keys, where
    multi() (CHECKMULTISIG) takes them in key order. In `_multi_input` the
    order the keys are walked in depends on which of the two the fragment is,
    and the multi_a arm is the reversed one -- else a 2-of-3 multi_a spend the
    library satisfies has its signatures under the wrong keys."""
    rule = "C10.multi_a_witness_order"
    fi = ctx.func("btclib.descriptors.miniscript._multi_input")
    flags = {a.targets[0].id for a in own_nodes(fi.node) if isinstance(a, ast.Assign) and isinstance(a.targets[0], ast.Name) and "'multi_a'" in str(norm(a.value)).replace('"', "'")}
    cands = [a for a in own_nodes(fi.node) if isinstance(a, ast.Assign) and isinstance(a.value, ast.IfExp) and any(isinstance(c, ast.Call) and call_name(c) == "reversed" for c in ast.walk(a.value))]
    ok = False
    detail = "no key order that depends on the fragment was found: the keys are walked one way for both multi() and multi_a()"
    for a in cands:
        t = a.value.test
        on_flag = (isinstance(t, ast.Name) and t.id in flags) or "'multi_a'" in str(norm(t)).replace('"', "'")
        negated = isinstance(t, ast.UnaryOp) and isinstance(t.op, ast.Not)
        rev_in_body = any(isinstance(c, ast.Call) and call_name(c) == "reversed" for c in ast.walk(a.value.body))
        if on_flag or (negated and isinstance(t.operand, ast.Name) and t.operand.id in flags):
            ok = rev_in_body != negated
            detail = f"`{norm(a)[:80]}`" + ("" if ok else ": the reversed order is on the multi() arm")
    rep.ob(rule, "_multi_input:keys", ok, fi.where(cands[0] if cands else None), detail if not ok else f"multi_a walks its keys reversed: {detail}")
    rep.floor(rule, 1)


def rule_script_sig_is_pushes(ctx: Ctx, rep: Report) -> None:
    """C10.script_sig_is_pushes: a script_sig is a script: what a finalizer or a
    solver answers as the script_sig is `serialize([...])` of the elements it
    pushes (or that of an empty list), never a field of the psbt as it is -- the
    redeem script *is* the bytes to push, and answered raw it is executed
    instead of pushed ("false top stack element" for every sh(wsh()))."""
    rule = "C10.script_sig_is_pushes"
    from sa.canon import expand
    n = 0
    for q in ("btclib.psbt.psbt._finalized_input", "btclib.descriptors.descriptors.miniscript_solver"):
        fi = ctx.func(q)
        for r in own_nodes(fi.node):
            if isinstance(r, ast.Return) and isinstance(r.value, ast.Tuple) and len(r.value.elts) == 2:
                n += 1
                e = r.value.elts[0]
                text = str(expand(fi, e))
                ok = text.replace(" ", "").startswith("serialize(") or text in ("b''", 'b""')
                rep.ob(rule, f"{fi.name}:return@{r.lineno - fi.node.lineno}", ok, fi.where(r), "the script_sig is a serialization of pushes" if ok else
                       f"the script_sig answered is `{text[:60]}`, not the serialization of what it pushes")
    rep.floor(rule, 5)


def rule_cltv_own_sequence(ctx: Ctx, rep: Report) -> None:
    """C10.cltv_own_sequence: BIP65's last condition is about the input being
    verified: "the nSequence field of the txin is 0xffffffff". The refusal in
    `op_checklocktimeverify` reads `tx.vin[i].sequence`, i being the input it
    was called for -- asked of every input, a spend the library builds with an
    after() leaf beside any input left at the default final sequence is
    refused by the library's own engine."""
    rule = "C10.cltv_own_sequence"
    fi = ctx.func("btclib.script.engine.script_op_codes.op_checklocktimeverify")
    ix = [p_ for p_ in fi.params() if p_ in ("i", "vin_i", "input_index")] or [fi.params()[2]]
    tests = [i for i in own_nodes(fi.node) if isinstance(i, ast.If) and any(isinstance(x, ast.Raise) for x in i.body) and "sequence" in str(norm(i.test))]
    if len(tests) != 1:
        rep.unknown(rule, "op_checklocktimeverify", fi.where(), f"{len(tests)} refusals on a sequence")
        return
    t = tests[0].test
    own = any(isinstance(x, ast.Subscript) and isinstance(x.slice, ast.Name) and x.slice.id in ix and str(norm(x.value)).endswith(".vin") for x in ast.walk(t))
    walks = any(isinstance(x, (ast.GeneratorExp, ast.ListComp, ast.comprehension)) for x in ast.walk(t))
    rep.ob(rule, "op_checklocktimeverify:final_sequence", own and not walks, fi.where(tests[0]), "the sequence asked about is the verified input's own" if own and not walks else
           f"`{norm(t)[:70]}` is not a question about the input being verified alone")
    rep.floor(rule, 1)


def rule_tapscript_table_complete(ctx: Ctx, rep: Report) -> None:
    """C10.tapscript_table_complete: BIP342 changes three op codes of the legacy
    interpreter -- CHECKMULTISIG and CHECKMULTISIGVERIFY are disabled,
    CHECKSIGADD is new -- and leaves every other one as it is. The tapscript
    dispatch table is the legacy table with exactly that difference: an entry
    forgotten in one of the two (OP_0NOTEQUAL, which the n: wrapper of a
    miniscript leaf compiles to) makes the engine refuse, in a tr() leaf, the
    very script it accepts under wsh()."""
    rule = "C10.tapscript_table_complete"

    def keys(modname: str) -> tuple[set[str], str]:
        mi = ctx.module(modname)
        for st in mi.tree.body:
            tg = st.target if isinstance(st, ast.AnnAssign) else st.targets[0] if isinstance(st, ast.Assign) else None
            if isinstance(tg, ast.Name) and tg.id == "OPERATIONS" and isinstance(st.value, ast.Dict):
                return {k.value for k in st.value.keys if isinstance(k, ast.Constant)}, f"{mi.relpath}:{st.lineno}"
        raise AnalysisError(f"{modname}.OPERATIONS not found")
    legacy, _w1 = keys("btclib.script.engine.script")
    tap, w2 = keys("btclib.script.engine.tapscript")
    want = (legacy - {"OP_CHECKMULTISIG", "OP_CHECKMULTISIGVERIFY"}) | {"OP_CHECKSIGADD"}
    # op codes each interpreter loop handles inline (not through the table) are the same two loops' business: compare what the tables hold
    missing, extra = sorted(want - tap), sorted(tap - want)
    rep.ob(rule, "OPERATIONS", not missing and not extra, w2, f"{len(tap)} entries: the legacy table minus the two CHECKMULTISIGs plus CHECKSIGADD" if not missing and not extra else
           f"the tapscript table lacks {missing} and has {extra} beyond the legacy table's BIP342 image")
    rep.floor(rule, 1)


def rule_multi_a_one_key_order(ctx: Ctx, rep: Report) -> None:
    """C10.multi_a_one_key_order: a multi_a() / sortedmulti_a() leaf writes its keys
    into the script in one order (sorted, for the second) and its satisfaction
    lists one witness element per key in the reverse of that order: script and
    stack are built from the *same* sequence, `self._pub_keys(...)`. A stack
    built over `self.keys`, the written order, puts the signatures of a
    sortedmulti_a() under the wrong keys wherever sorting moved one."""
    rule = "C10.multi_a_one_key_order"
    ci = ctx.cls("btclib.descriptors.descriptors.MultiA")
    n = 0
    for name in ("_script", "_stack"):
        m = ci.methods[name]
        uses = any(isinstance(c, ast.Call) and isinstance(c.func, ast.Attribute) and c.func.attr == "_pub_keys" for c in own_nodes(m.node))
        raw = [x for x in own_nodes(m.node) if isinstance(x, (ast.For, ast.comprehension)) and str(norm(x.iter)) in ("self.keys", "reversed(self.keys)")]
        n += 1
        rep.ob(rule, f"MultiA.{name}", uses and not raw, m.where(raw[0].iter if raw else None), "walks self._pub_keys(...)" if uses and not raw else
               f"`MultiA.{name}` walks {'`self.keys`' if raw else 'something other than self._pub_keys(...)'}: not the order the script holds the keys in")
    rep.floor(rule, 2)


def rule_every_input_visited(ctx: Ctx, rep: Report) -> None:
    """C10.every_input_visited: "any number of inputs": the roles of a psbt (combine,
    sign, finalize, extract, the validators, the size estimate) walk
    `psbt.inputs` and `psbt.outputs` to the end -- no loop over them has a
    `break` or a `return` in its body. What is skipped is skipped with
    `continue`: a `break` at an input that is already finalized leaves every
    input after it unfinalized, silently."""
    rule = "C10.every_input_visited"
    n = 0
    for q, fi in sorted(ctx.prog.functions.items()):
        if not (q.startswith("btclib.psbt.") or q.startswith("btclib.psbt_signer.")):
            continue
        for lp in own_nodes(fi.node):
            if not (isinstance(lp, ast.For) and any(norm(x).endswith((".inputs", ".outputs")) for x in ast.walk(lp.iter) if isinstance(x, ast.Attribute))):
                continue
            out = [x for b in lp.body for x in ast.walk(b) if isinstance(x, (ast.Break, ast.Return))
                   and not any(isinstance(p_, (ast.For, ast.While, ast.FunctionDef, ast.Lambda)) and p_ is not lp and any(x is y for y in ast.walk(p_)) for b2 in lp.body for p_ in ast.walk(b2))]
            n += 1
            rep.ob(rule, f"{q}:L{lp.lineno - fi.node.lineno}", not out, fi.where(out[0] if out else lp), "walked to the end" if not out else
                   f"the loop over `{norm(lp.iter)[:40]}` is left at `{norm(out[0])[:30]}` (line {out[0].lineno}): the inputs after that one are never looked at")
    rep.floor(rule, 15)


def rule_watch_only_means_no_private_key(ctx: Ctx, rep: Report) -> None:
    """C10.watch_only_means_no_private_key: a signer refuses to sign when it is
    watch-only, and it is watch-only when it holds *no* private key:
    `SoftwareSigner.is_watch_only` is `not any(... is_private ...)`. With
    `not all`, a signer holding one xprv account and one xpub account refuses
    to sign for the account it has the key of."""
    from sa import values as VX
    rule = "C10.watch_only_means_no_private_key"
    fi = ctx.func("btclib.psbt_signer.SoftwareSigner.is_watch_only")
    vx = VX.of(fi)
    bb: dict[str, str] = {}
    ok = (vx.returns("not any($$g)", bb) and "is_private" in bb.get("$$g", "") and "not " not in bb["$$g"]) or \
         (vx.returns("all($$g)", bb) and "not " in bb.get("$$g", "") and "is_private" in bb["$$g"])
    rep.ob(rule, "SoftwareSigner.is_watch_only", ok, fi.where(), "no key is private" if ok else f"`{norm(vx.ret)[:80] if vx.ret is not None else '?'}` is not `no key is private`")
    rep.floor(rule, 1)


RULES = [
    ("C10.every_input_visited", rule_every_input_visited),
    ("C10.watch_only_means_no_private_key", rule_watch_only_means_no_private_key),

    ("C10.cltv_own_sequence", rule_cltv_own_sequence),
    ("C10.tapscript_table_complete", rule_tapscript_table_complete),
    ("C10.multi_a_one_key_order", rule_multi_a_one_key_order),

    ("C10.script_sig_is_pushes", rule_script_sig_is_pushes),

    ("C10.control_blocks_prove", rule_control_blocks_prove),
    ("C10.multi_a_witness_order", rule_multi_a_witness_order),

    ("C10.redeem_script_pushed", rule_redeem_script_pushed),
    ("C10.memo_key_complete", rule_memo_key_complete_),
    ("C10.engine_admits", rule_engine_admits),
    ("C10.witness_order", rule_witness_order),
    ("C10.every_leaf_named", rule_every_leaf_named),
    ("C10.params_forwarded", rule_params_forwarded_),
    ("C10.sighash_commits", rule_sighash_commits),
    ("C10.params_used", rule_params_used),
    ("C10.bip322_first_prevout", rule_bip322_first_prevout),
    ("C10.after_needs_sequence", rule_after_needs_sequence),
    ("C10.same_hash_type", rule_same_hash_type),
    ("C10.finalize_verifies", rule_finalize_verifies),
    ("C10.signed_then_checked", rule_signed_then_checked),
    ("C10.message_roles", rule_message_roles),
]

CONTROLS = [
    {"rule": "C10.witness_order", "name": "or_d dissatisfies with the two stacks swapped", "module": "btclib.descriptors.miniscript",
     "edit": lambda ctx: M.sub_expr(ctx, "btclib.descriptors.miniscript._or_input", lambda n: isinstance(n, ast.Return) and "_both(z.dsat, x.dsat)" in norm(n) and isinstance(parent(n), ast.If) and "or_d" in norm(parent(n).test),
                                    "return _Inputs(satisfaction, _both(x.dsat, z.dsat))")},
    {"rule": "C10.every_leaf_named", "name": "only the first leaf of a key is named", "module": "btclib.descriptors.descriptors",
     "edit": lambda ctx: M.sub_expr(ctx, "btclib.descriptors.descriptors.TrDescriptor._taproot_hd_key_paths", M.is_text("hash_ not in hashes"), "not hashes")},
    {"rule": "C10.params_forwarded", "name": "the key-path signer does not hand the merkle root on", "module": "btclib.psbt_signer",
     "edit": lambda ctx: M.sub_expr(ctx, "btclib.psbt_signer.SoftwareSigner.sign_schnorr", M.is_text("output_prvkey_from_merkle_root(prv_key, merkle_root)"), "output_prvkey_from_merkle_root(prv_key)")},
    {"rule": "C10.sighash_commits", "name": "SINGLE|ANYONECANPAY commits to no output", "module": "btclib.script.sig_hash",
     "edit": lambda ctx: M.sub_expr(ctx, "btclib.script.sig_hash.taproot", lambda n: isinstance(n, ast.If) and norm(n.test) == "hashtype & 3 == SINGLE" and "sha_single_output" in norm(n) or (isinstance(n, ast.Compare) and norm(n) == "hashtype & 3 == SINGLE"),
                                    "hashtype == SINGLE", 1)},
    {"rule": "C10.params_used", "name": "the key-path signer drops the merkle root", "module": "btclib.psbt_signer",
     "edit": lambda ctx: M.sub_expr(ctx, "btclib.psbt_signer.SoftwareSigner.sign_schnorr", M.is_text("output_prvkey_from_merkle_root(prv_key, merkle_root)"), "output_prvkey_from_merkle_root(prv_key)")},
    {"rule": "C10.bip322_first_prevout", "name": "the prevouts come from the psbt alone", "module": "btclib.bip322",
     "edit": lambda ctx: M.sub_expr(ctx, "btclib.bip322.assert_as_valid", lambda n: isinstance(n, ast.AugAssign) and "_psbt_prevouts" in norm(n), "prevouts = _psbt_prevouts(payload)")},
    {"rule": "C10.after_needs_sequence", "name": "after() ignores the sequence", "module": "btclib.descriptors.miniscript",
     "edit": lambda ctx: M.sub_expr(ctx, "btclib.descriptors.miniscript.SpendContext._after", lambda n: isinstance(n, ast.BoolOp) and "self.sequence" in norm(n), "value <= self.locktime")},
    {"rule": "C10.same_hash_type", "name": "ecdsa suffix hard-wired to ALL", "module": P,
     "edit": lambda ctx: M.sub_expr(ctx, f"{P}._sign_ecdsa_input", M.is_text("sig + hash_type.to_bytes(1, 'big')"), "sig + ALL.to_bytes(1, 'big')")},
    {"rule": "C10.same_hash_type", "name": "taproot DEFAULT appended as a zero byte", "module": P,
     "edit": lambda ctx: M.drop_if(ctx, f"{P}._taproot_signature", lambda n: norm(n.test) == "not hash_type")},
    {"rule": "C10.finalize_verifies", "name": "finalize no longer verifies partial signatures", "module": P,
     "edit": lambda ctx: M.drop_call_stmt(ctx, f"{P}.finalize", "_assert_partial_sigs_verify")},
    {"rule": "C10.finalize_verifies", "name": "taproot key path finalized unverified", "module": P,
     "edit": lambda ctx: M.drop_if(ctx, f"{P}._finalized_taproot_input", lambda n: "ssa.verify_(msg, output_key" in norm(n.test))},
    {"rule": "C10.signed_then_checked", "name": "sign_message returns without checking", "module": "btclib.psbt_signer",
     "edit": lambda ctx: M.drop_call_stmt(ctx, "btclib.psbt_signer.sign_message", "assert_as_valid")},
    {"rule": "C10.message_roles", "name": "p2pkh message check ignores the hash", "module": "btclib.ecc.bms",
     "edit": lambda ctx: M.drop_if(ctx, "btclib.ecc.bms._assert_p2pkh", lambda n: "hash160(pub_key) != h160" in norm(n.test))},
]
