"""Spec tables for the script engine, transcribed from Bitcoin Core
(src/script/script.h, src/script/interpreter.{h,cpp}) and BIP342.

Opcode classes per dialect. 'legacy' covers BASE and WITNESS_V0 (identical
opcode set); 'tapscript' is BIP342 leaf version 0xc0.

  push          0x01..0x4e   data pushes (incl. PUSHDATA1/2/4)
  smallint      OP_0, OP_1..OP_16 (OP_1NEGATE is a handler: it has a body)
  control       OP_IF OP_NOTIF OP_ELSE OP_ENDIF (evaluated in unexecuted branches)
  nop           OP_NOP
  upgradable    OP_NOP1, OP_NOP4..OP_NOP10 (DISCOURAGE_UPGRADABLE_NOPS)
  op            every opcode with execution semantics
  disabled      CVE-2010-5137 set: fails even when not executed (legacy)
  always_bad    OP_VERIF OP_VERNOTIF: fail even when not executed
  bad_if_run    OP_RESERVED OP_VER OP_RESERVED1 OP_RESERVED2, unassigned bytes: BAD_OPCODE only when executed
  success       BIP342 OP_SUCCESSx: 80, 98, 126-129, 131-134, 137-138, 141-142, 149-153, 187-254
"""

OP_SUCCESS = frozenset([80, 98, *range(126, 130), *range(131, 135), 137, 138, 141, 142, *range(149, 154), *range(187, 255)])
DISABLED = frozenset([126, 127, 128, 129, 131, 132, 133, 134, 141, 142, 149, 150, 151, 152, 153])

NAMES = {
    0: "OP_0", 76: "OP_PUSHDATA1", 77: "OP_PUSHDATA2", 78: "OP_PUSHDATA4", 79: "OP_1NEGATE", 80: "OP_RESERVED",
    **{80 + i: f"OP_{i}" for i in range(1, 17)},
    97: "OP_NOP", 98: "OP_VER", 99: "OP_IF", 100: "OP_NOTIF", 101: "OP_VERIF", 102: "OP_VERNOTIF", 103: "OP_ELSE",
    104: "OP_ENDIF", 105: "OP_VERIFY", 106: "OP_RETURN", 107: "OP_TOALTSTACK", 108: "OP_FROMALTSTACK", 109: "OP_2DROP",
    110: "OP_2DUP", 111: "OP_3DUP", 112: "OP_2OVER", 113: "OP_2ROT", 114: "OP_2SWAP", 115: "OP_IFDUP", 116: "OP_DEPTH",
    117: "OP_DROP", 118: "OP_DUP", 119: "OP_NIP", 120: "OP_OVER", 121: "OP_PICK", 122: "OP_ROLL", 123: "OP_ROT",
    124: "OP_SWAP", 125: "OP_TUCK", 126: "OP_CAT", 127: "OP_SUBSTR", 128: "OP_LEFT", 129: "OP_RIGHT", 130: "OP_SIZE",
    131: "OP_INVERT", 132: "OP_AND", 133: "OP_OR", 134: "OP_XOR", 135: "OP_EQUAL", 136: "OP_EQUALVERIFY",
    137: "OP_RESERVED1", 138: "OP_RESERVED2", 139: "OP_1ADD", 140: "OP_1SUB", 141: "OP_2MUL", 142: "OP_2DIV",
    143: "OP_NEGATE", 144: "OP_ABS", 145: "OP_NOT", 146: "OP_0NOTEQUAL", 147: "OP_ADD", 148: "OP_SUB", 149: "OP_MUL",
    150: "OP_DIV", 151: "OP_MOD", 152: "OP_LSHIFT", 153: "OP_RSHIFT", 154: "OP_BOOLAND", 155: "OP_BOOLOR",
    156: "OP_NUMEQUAL", 157: "OP_NUMEQUALVERIFY", 158: "OP_NUMNOTEQUAL", 159: "OP_LESSTHAN", 160: "OP_GREATERTHAN",
    161: "OP_LESSTHANOREQUAL", 162: "OP_GREATERTHANOREQUAL", 163: "OP_MIN", 164: "OP_MAX", 165: "OP_WITHIN",
    166: "OP_RIPEMD160", 167: "OP_SHA1", 168: "OP_SHA256", 169: "OP_HASH160", 170: "OP_HASH256",
    171: "OP_CODESEPARATOR", 172: "OP_CHECKSIG", 173: "OP_CHECKSIGVERIFY", 174: "OP_CHECKMULTISIG",
    175: "OP_CHECKMULTISIGVERIFY", 176: "OP_NOP1", 177: "OP_CHECKLOCKTIMEVERIFY", 178: "OP_CHECKSEQUENCEVERIFY",
    179: "OP_NOP4", 180: "OP_NOP5", 181: "OP_NOP6", 182: "OP_NOP7", 183: "OP_NOP8", 184: "OP_NOP9", 185: "OP_NOP10",
    186: "OP_CHECKSIGADD",
}

_OPS_COMMON = ([79] + list(range(105, 126)) + [130, 135, 136, 139, 140] + list(range(143, 149)) + list(range(154, 174)) + [177, 178])


def opcode_class(b: int, dialect: str) -> str:
    if 1 <= b <= 78:
        return "push"
    if b == 0 or 81 <= b <= 96:
        return "smallint"
    if dialect == "tapscript" and b in OP_SUCCESS:
        return "success"
    if b in (99, 100, 103, 104):
        return "control"
    if b == 97:
        return "nop"
    if b == 176 or 179 <= b <= 185:
        return "upgradable"
    if b in (101, 102):
        return "always_bad"
    if dialect == "legacy" and b in DISABLED:
        return "disabled"
    if b in _OPS_COMMON:
        return "op"
    if b in (174, 175):
        # BIP342: CHECKMULTISIG(VERIFY) are disabled in tapscript: fail when executed
        return "op" if dialect == "legacy" else "bad_if_run"
    if b == 186:
        return "op" if dialect == "tapscript" else "bad_if_run"
    return "bad_if_run"


# SCRIPT_VERIFY_* (interpreter.h). Bits 0..17 transcribed with certainty; the three
# taproot policy flags occupy bits 18..20 (their relative order is not asserted here).
FLAG_BITS = {
    "P2SH": 0, "STRICTENC": 1, "DERSIG": 2, "LOW_S": 3, "NULLDUMMY": 4, "SIGPUSHONLY": 5, "MINIMALDATA": 6,
    "DISCOURAGE_UPGRADABLE_NOPS": 7, "CLEANSTACK": 8, "CHECKLOCKTIMEVERIFY": 9, "CHECKSEQUENCEVERIFY": 10, "WITNESS": 11,
    "DISCOURAGE_UPGRADABLE_WITNESS_PROGRAM": 12, "MINIMALIF": 13, "NULLFAIL": 14, "WITNESS_PUBKEYTYPE": 15,
    "CONST_SCRIPTCODE": 16, "TAPROOT": 17,
}
FLAG_BITS_18_20 = {"DISCOURAGE_UPGRADABLE_TAPROOT_VERSION", "DISCOURAGE_OP_SUCCESS", "DISCOURAGE_UPGRADABLE_PUBKEYTYPE"}
# consensus (mandatory) flags: what ALL_FLAGS of the engine denotes
MANDATORY = {"P2SH", "DERSIG", "NULLDUMMY", "CHECKLOCKTIMEVERIFY", "CHECKSEQUENCEVERIFY", "WITNESS", "TAPROOT"}

LIMITS = {
    "MAX_SCRIPT_ELEMENT_SIZE": 520, "MAX_OPS_PER_SCRIPT": 201, "MAX_PUBKEYS_PER_MULTISIG": 20, "MAX_SCRIPT_SIZE": 10000,
    "MAX_STACK_SIZE": 1000,
}
LOCKTIME_THRESHOLD = 500_000_000
SEQUENCE_FINAL = 0xFFFFFFFF
SEQUENCE_LOCKTIME_DISABLE_FLAG = 1 << 31
SEQUENCE_LOCKTIME_TYPE_FLAG = 1 << 22
SEQUENCE_LOCKTIME_MASK = 0x0000FFFF
VALIDATION_WEIGHT_OFFSET = 50
VALIDATION_WEIGHT_PER_SIGOP_PASSED = 50
TAPROOT_CONTROL_BASE_SIZE = 33
TAPROOT_CONTROL_NODE_SIZE = 32
TAPROOT_CONTROL_MAX_NODE_COUNT = 128
TAPROOT_LEAF_MASK = 0xFE
TAPROOT_LEAF_TAPSCRIPT = 0xC0
ANNEX_TAG = 0x50
