"""Preimage layouts of the three signature-hash algorithms, as sequences of
canonical item labels (see rules/C09.py `canon`). Transcribed from BIP341
"Common signature message", BIP342 (ext), BIP143 "Specification", and the
legacy algorithm of Bitcoin Core's SignatureHash.

Roles: TX = the transaction parameter, IDX = the input index parameter,
PREVOUTS, HT = hash type, ANNEX, EXT.
"""

DEFAULT, ALL, NONE, SINGLE, ACP = 0, 1, 2, 3, 0x80
TAPROOT_HASH_TYPES = frozenset({0, 1, 2, 3, 0x81, 0x82, 0x83})


def bip341(hash_type: int, annex: bool) -> list[str]:
    acp = bool(hash_type & 0x80)
    out_type = hash_type & 3
    seq = ["CONST(00)", "INT(1,little,u):HT", "u32le:version", "u32le:lock time"]
    if not acp:
        seq += ["sha256(serialized_prevouts)", "sha256(serialized_amounts)", "sha256(serialized_script_pub_keys)", "sha256(serialized_sequences)"]
    if out_type not in (NONE, SINGLE):
        seq += ["sha256(serialized_outputs)"]
    seq += ["spend_type"]
    if acp:
        seq += ["outpoint:TX.vin[IDX]", "i64le:PREVOUTS[IDX].value", "var_bytes:PREVOUTS[IDX].script", "u32le:sequence:TX.vin[IDX]"]
    else:
        seq += ["INT(4,little,u):IDX"]
    if annex:
        seq += ["sha256(var_bytes:ANNEX)"]
    if out_type == SINGLE:
        seq += ["sha256(output:TX.vout[IDX])"]
    seq += ["EXT"]
    return seq


def bip143(hash_type: int, single_in_range: bool) -> list[str]:
    acp = bool(hash_type & 0x80)
    base = hash_type & 0x1F
    hp = "ZERO32" if acp else "sha256(sha256(serialized_prevouts))"
    hs = "ZERO32" if (acp or base in (SINGLE, NONE)) else "sha256(sha256(serialized_sequences))"
    if base not in (SINGLE, NONE):
        ho = "sha256(sha256(serialized_outputs))"
    elif base == SINGLE and single_in_range:
        ho = "sha256(sha256(output:TX.vout[IDX]))"
    else:
        ho = "ZERO32"
    return ["u32le:version", hp, hs, "outpoint:TX.vin[IDX]", "var_bytes:script_code", "i64le:amount", "u32le:sequence:TX.vin[IDX]", ho,
            "u32le:lock time", "hash_type:4le"]
