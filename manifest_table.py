"""Per-property MANIFEST entries (source of MANIFEST.json; run gen_manifest.py)."""

CLAIMED = {
    "C05": {
        "text": "Static decision of the structural necessary conditions of canonical, mutually inverse wire formats: every class's serialize/parse agree on width, byte order and signedness of each integer field; CompactSize serialize/_size/parse are one threshold table accepting only the shortest form; every class parser refuses trailing bytes, raw reads are length-validated, the uniqueness refusals exist; to_dict/from_dict agree on keys and on encoder/decoder pairing; PSBT key types are written and read by both directions and unknown keys are kept. All call sites / classes / table rows in the tree are enumerated on every run.",
        "note": "Decides layout/table/refusal agreement, not value-level round-trip equality (parse(serialize(x)) == x is not evaluated). Trusts CPython ast and the frozen encoder/decoder pair tables in rules/C05.py.",
        "technique": "static analysis: AST layout-atom extraction, constant folding of tables, CFG must-pass-through",
    },
    "C11": {
        "text": "Static decision of the structural conditions of lossless, non-aliasing PSBT roles: combine merges every dataclass field of PsbtIn/PsbtOut/Psbt (identity fields excepted, and those are never merged) using the is-None helper exactly for fields the serializer writes when not None; version/identifier/validity checks dominate the first merge; only a reviewed table of functions stores into the fields that make the unsigned transaction and finalization keeps them; assert_signatures_only compares every non-signature field, verifies every new signature on every path to return, and request_signatures checks before it merges; an interprocedural alias/effect analysis shows no role mutates its Psbt arguments or returns (part of) them.",
        "note": "Does not decide order-independence/idempotence as equality of results, nor deep sharing of immutable parts. Effect summaries assume helpers return fresh objects unless they return a parameter through assignment/attribute/subscript/iteration/shallow copy, and that caller-supplied callables do not mutate their arguments.",
        "technique": "static analysis: dataclass-field vs call-site table comparison, CFG dominance, who-may-write census, interprocedural alias/mutation summaries",
    },
    "C04": {
        "text": "Static decision of the structural conditions of backend equivalence: every load of a name imported from the bindings door (45 sites) is control-dependent on the one dispatch predicate -- locally, through every caller in the closed package, or through a token (a value or field that is non-None only when the predicate answered true); the flag has exactly one runtime writer, the predicate is uncached and no module keeps its answer; btclib_secp256k1 is imported in one module; every bindings call has a ValueError handler at the call or in every caller, or is a row of a reviewed table of calls whose preconditions exclude the raise, and handlers raise library classes only; each function asking the predicate keeps a bindings-free path to a normal return; zero scalars and infinity never reach a delegated call.",
        "note": "Does not decide byte-for-byte parity of values between the arms (e.g. the scan_transaction_outputs divergence of DESIGN.md section 5 is out of reach). The NO_HANDLER / RUNTIME_UNCONVERTED tables in rules/C04.py are reviewed by reading and trusted.",
        "technique": "static analysis: CFG control-dependence on a predicate (guard facts), call-graph closure, who-may-write/import census, handler coverage",
    },
    "C20": {
        "text": "Static typestate/ownership decision: in musig2.sign a store of 64 zero octets over the secret scalars lies on every path to a normal return, directly after the only reads of them and before any refusal or arithmetic, and every caller hands over its own bytearray (no copy); every public method of dsa.Signer, ssa.Signer, SoftwareSigner and HwiSigner that reaches a signing primitive, a private-key helper or the device refuses on the terminal flag first (directly or through a checked sibling), the flags are only ever set outside constructors and wipe drops the key material; the wallet counters have exactly the reviewed writers, the next-index update reads its previous value and every hand-out is recorded; the shared wordlist tables are written only under their lock with the 'loaded' length last; callers of memoized functions returning mutable tables never mutate or leak them; the backend flag has one writer and no cached copy.",
        "note": "Linearizability under concurrent callers is not decided beyond the lock discipline of the one locked structure; 'signs at most once' is decided as consumption of the nonce buffer, not over arbitrary caller code that copies the nonce before calling.",
        "technique": "static analysis: typestate (consume / flag-checked / monotone) on the CFG, who-may-write census, depends-on-old dataflow, lock-scope check, call-site mutation check for memoized results",
    },
}

_PENDING = "check not built yet in this session (static rules designed in DESIGN.md section 4)"
NOT_APPLICABLE = {f"C{i:02d}": _PENDING for i in range(1, 21) if f"C{i:02d}" not in CLAIMED}
