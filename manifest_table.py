"""Per-property MANIFEST entries (source of MANIFEST.json; run gen_manifest.py)."""

CLAIMED = {
    "C05": {
        "text": "Static decision of the structural necessary conditions of canonical, mutually inverse wire formats: every class's serialize/parse agree on width, byte order and signedness of each integer field; CompactSize serialize/_size/parse are one threshold table accepting only the shortest form; every class parser refuses trailing bytes, raw reads are length-validated, the uniqueness refusals exist; to_dict/from_dict agree on keys and on encoder/decoder pairing; PSBT key types are written and read by both directions and unknown keys are kept. All call sites / classes / table rows in the tree are enumerated on every run.",
        "note": "Decides layout/table/refusal agreement, not value-level round-trip equality (parse(serialize(x)) == x is not evaluated). Trusts CPython ast and the frozen encoder/decoder pair tables in rules/C05.py.",
        "technique": "static analysis: AST layout-atom extraction, constant folding of tables, CFG must-pass-through",
    },
}

_PENDING = "check not built yet in this session (static rules designed in DESIGN.md section 4)"
NOT_APPLICABLE = {f"C{i:02d}": _PENDING for i in range(1, 21) if f"C{i:02d}" not in CLAIMED}
