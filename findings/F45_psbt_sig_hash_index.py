"""F45 (C19): psbt.ecdsa_sig_hash(psbt, 5) / taproot_sig_hash(psbt, 5) on a one-input psbt raised IndexError,
and an index of -1 was answered from the end of the list. Exit 1 when present."""
import sys
from btclib.exceptions import BTClibException
from btclib.psbt.psbt import Psbt, ecdsa_sig_hash, taproot_sig_hash
from btclib.tx.out_point import OutPoint
from btclib.tx.tx import Tx
from btclib.tx.tx_in import TxIn
from btclib.tx.tx_out import TxOut

p = Psbt.from_tx(Tx(2, 0, [TxIn(OutPoint(b"\x01" * 32, 0), b"", 0xFFFFFFFF)], [TxOut(900, b"\x51")]))
bad = []
for f in (ecdsa_sig_hash, taproot_sig_hash):
    for i in (5, -5, -1):
        try:
            f(p, i)
            bad.append((f.__name__, i, "answered"))
        except BTClibException as e:
            if "invalid input index" not in str(e):
                bad.append((f.__name__, i, "refused for another reason: " + str(e)[:40]))
        except Exception as e:  # noqa: BLE001
            bad.append((f.__name__, i, type(e).__name__))
for b in bad:
    print("DEFECT:", b)
print("ok" if not bad else "")
sys.exit(1 if bad else 0)
