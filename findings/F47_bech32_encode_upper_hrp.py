"""F47 (C06): bech32.encode("BC", ...) wrote a mixed-case string (upper case hrp, lower case data, checksum over
the upper case hrp) that bech32.decode refuses; BIP173: encoders MUST output lower case. Exit 1 when present."""
import sys
from btclib import bech32
from btclib.exceptions import BTClibValueError

e = bech32.encode("BC", [0, 1, 2])
try:
    ok = bech32.decode(e) == ("bc", [0, 1, 2]) and e == e.lower()
except BTClibValueError as ex:
    print(f"DEFECT: encode wrote {e!r}, which decode refuses: {ex}")
    sys.exit(1)
print("ok" if ok else f"DEFECT: {e!r}")
sys.exit(0 if ok else 1)
