"""F40 (C19): PsbtIn/PsbtOut.from_dict with a json string in an integer field raised a builtin TypeError
("'<=' not supported between instances of 'int' and 'str'") out of assert_valid. Exit 1 when present."""
import sys
from btclib.exceptions import BTClibException
from btclib.psbt.psbt_in import PsbtIn
from btclib.psbt.psbt_out import PsbtOut

bad = []
for cls, key in ((PsbtIn, "output_index"), (PsbtIn, "sequence"), (PsbtIn, "sig_hash"), (PsbtOut, "sp_v0_label")):
    try:
        cls.from_dict({**cls().to_dict(), key: "zz"})
    except BTClibException:
        pass
    except Exception as e:  # noqa: BLE001
        bad.append((cls.__name__, key, type(e).__name__))
for b in bad:
    print("DEFECT: non-library exception:", b)
print("ok" if not bad else "")
sys.exit(1 if bad else 0)
