"""F18 (C06): a bech32 string written in capitals with the Kelvin sign U+212A in place of a K
was accepted: U+212A is its own upper case (so the string is not "mixed case") and str.lower()
maps it to "k" (so it then looked like a charset character). The BIP173 reference decoder refuses
any character outside 33..126. Exit 1 when the defect is present."""
import sys
from btclib import b32, bech32
from btclib.exceptions import BTClibValueError

good = "BC1QW508D6QEJXTDG4Y5R3ZARVARY0C5XW7KV8F3T4"
bad = good.replace("K", "K")
assert bad != good and bech32.decode(good)[0] == "bc"
n = 0
for f in (bech32.decode, b32.witness_from_address):
    try:
        print("DEFECT:", f.__name__, "accepted", ascii(bad), "->", f(bad))
        n += 1
    except BTClibValueError as e:
        print("ok:", f.__name__, "refused:", ascii(str(e)))
sys.exit(1 if n else 0)
