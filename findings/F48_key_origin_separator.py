"""F48 (C05): BIP32KeyOrigin.from_description sliced over the character after the fingerprint unseen:
"deadbeefX44h/0" was read as deadbeef/44h/0. Exit 1 when present."""
import sys
from btclib.bip32.key_origin import BIP32KeyOrigin
from btclib.exceptions import BTClibValueError

try:
    k = BIP32KeyOrigin.from_description("deadbeefX44h/0")
    print(f"DEFECT: accepted, and written back as {k.description!r}")
    sys.exit(1)
except BTClibValueError as e:
    print("ok:", e)
