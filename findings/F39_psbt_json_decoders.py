"""F39 (C19): PsbtIn/PsbtOut.from_dict raised AttributeError / TypeError / IndexError for a json value of the
wrong shape (a number where a map is expected, null for a pair, a string for the taproot tree). Exit 1 when present."""
import sys
from btclib.exceptions import BTClibException
from btclib.psbt.psbt_in import PsbtIn
from btclib.psbt.psbt_out import PsbtOut

bad = []
base = PsbtIn().to_dict()
for k, v in (("partial_signatures", 5), ("unknown", 5), ("taproot_leaf_scripts", {"": None}), ("musig2_participant_pub_keys", {"": None}), ("ripemd160_preimages", 5)):
    try:
        PsbtIn.from_dict({**base, k: v})
    except BTClibException:
        pass
    except Exception as e:  # noqa: BLE001
        bad.append(("PsbtIn", k, type(e).__name__))
ob = PsbtOut().to_dict()
for k, v in (("taproot_tree", "zz"), ("taproot_tree", 5), ("unknown", 5)):
    try:
        PsbtOut.from_dict({**ob, k: v})
    except BTClibException:
        pass
    except Exception as e:  # noqa: BLE001
        bad.append(("PsbtOut", k, type(e).__name__))
for b in bad:
    print("DEFECT: non-library exception:", b)
print("ok" if not bad else "")
sys.exit(1 if bad else 0)
