"""F23 (C19): Block.parse(check_validity=False) accepts a block with no transactions, and its
`witness_commitment` property then raised IndexError (`self.transactions[0]`) -- "an object a
parser accepted can be handed to every consumer without leaving that contract". Exit 1 when present."""
import sys
from btclib.block.block import Block
from btclib.block.block_header import BlockHeader

h = BlockHeader(1, b"\x00" * 32, b"\x00" * 32, bits=b"\x1d\x00\xff\xff", check_validity=False)
b = Block.parse(Block(h, [], check_validity=False).serialize(check_validity=False), check_validity=False)
try:
    print("witness_commitment:", b.witness_commitment)
    sys.exit(0)
except IndexError as e:
    print("DEFECT: IndexError:", e)
    sys.exit(1)
