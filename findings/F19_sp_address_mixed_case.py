"""F19 (C06): silent_payments.keys_from_address lowered the string before decoding it, so a
BIP352 address of mixed case -- which bech32 must refuse -- was accepted. Exit 1 when present."""
import sys
from btclib import silent_payments as sp
from btclib.curves.curve import mult
from btclib.exceptions import BTClibValueError

a = sp.address_from_keys(mult(11), mult(13))
mixed = a[:10] + a[10:].upper()
assert sp.keys_from_address(a) == sp.keys_from_address(a.upper())
try:
    sp.keys_from_address(mixed)
    print("DEFECT: mixed case accepted:", mixed[:24] + "...")
    sys.exit(1)
except BTClibValueError as e:
    print("ok: refused:", str(e)[:50])
    sys.exit(0)
