"""F49 (C19): miniscript.parse("older(" + "9" * 5000 + ")") and descriptors.parse of a 5000-digit multi()
threshold raised the interpreter's own ValueError ("Exceeds the limit (4300 digits) ..."). Exit 1 when present."""
import sys
from btclib.descriptors import descriptors, miniscript
from btclib.exceptions import BTClibException

K = "02c6047f9441ed7d6d3045406e95c07cd85c778e4b8cef3ca7abac09b95c709ee5"
bad = []
for f, text in ((miniscript.parse, "older(" + "9" * 5000 + ")"), (descriptors.parse, "wsh(multi(" + "9" * 5000 + f",{K}))")):
    try:
        f(text)
    except BTClibException:
        pass
    except Exception as e:  # noqa: BLE001
        bad.append((f.__module__, type(e).__name__, str(e)[:50]))
for b in bad:
    print("DEFECT: non-library exception:", b)
print("ok" if not bad else "")
sys.exit(1 if bad else 0)
