"""F35 (C12): tree_helper read the first two elements of a branch whatever its length: a node of three
subtrees gave the output key of the tree without the third. Exit 1 when present."""
import sys
from btclib.exceptions import BTClibValueError
from btclib.script.taproot import output_pubkey

three = [[(0xC0, ["OP_1"])], [(0xC0, ["OP_2"])], [(0xC0, ["OP_3"])]]
try:
    q = output_pubkey(None, three)
    same = q == output_pubkey(None, three[:2])
    print(f"DEFECT: a three-branch node is accepted" + (" and commits to its first two branches only" if same else ""))
    sys.exit(1)
except BTClibValueError as e:
    print("ok:", e)
