"""F30 (C08): under DERSIG a DER-valid signature with r = 5 (no x-coordinate), r = 0 or s = 0 ended the
script with an error in fix_signature; Core's CheckSignatureEncoding passes it and the verification answers
false. Exit 1 when present."""
import sys
from btclib.exceptions import BTClibValueError
from btclib.script.engine.flags import ScriptFlag
from btclib.script.engine.script import fix_signature

bad = 0
for sig in ("3006020105020101", "3006020100020101", "3006020101020100"):
    try:
        fix_signature(bytes.fromhex(sig) + b"\x01", ScriptFlag.DERSIG)
    except BTClibValueError as e:
        print(f"DEFECT: {sig}: {e}")
        bad += 1
print("ok" if not bad else "")
sys.exit(1 if bad else 0)
