"""F29 (C08): op_checksig returned False for an empty signature before the public key's encoding was
judged; Core runs CheckPubKeyEncoding after CheckSignatureEncoding (which an empty signature passes), so
`0 <05> CHECKSIG NOT` under STRICTENC is SCRIPT_ERR_PUBKEYTYPE where btclib accepted it. Exit 1 when present."""
import sys
from btclib.exceptions import BTClibValueError
from btclib.script.engine.flags import ScriptFlag
from btclib.script.engine.script import op_checksig
from btclib.tx.tx import Tx

tx = Tx(check_validity=False)
bad = 0
for pub_key, flags, segwit in ((b"\x05", ScriptFlag.STRICTENC, False), (b"\x04" + bytes(64), ScriptFlag.WITNESS | ScriptFlag.WITNESS_PUBKEYTYPE, True)):
    try:
        r = op_checksig(b"", [b""], pub_key, b"", 0, 0, tx, 0, flags, segwit)
        print(f"DEFECT: key {pub_key[:1].hex()}.. with an empty signature under {flags!r}: answered {r}, Core refuses the key encoding")
        bad += 1
    except BTClibValueError:
        pass
print("ok" if not bad else "")
sys.exit(1 if bad else 0)
