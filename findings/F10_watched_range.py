"""core_import.watched_range leaks KeyError / ValueError / TypeError on a malformed RPC reply.
Exits 1 while the defect is present."""
import sys
from btclib.core_import import watched_range
from btclib.exceptions import BTClibException
d = "pkh(02c6047f9441ed7d6d3045406e95c07cd85c778e4b8cef3ca7abac09b95c709ee5)"
bad = []
for reply in ({}, {"descriptors": [{}]}, {"descriptors": [{"desc": d, "range": "ab"}]}, {"descriptors": 5}):
    try:
        watched_range(d, reply)
    except BTClibException:
        pass
    except Exception as e:  # noqa: BLE001
        bad.append((reply, type(e).__name__, str(e)))
for b in bad:
    print("non-library exception:", b)
sys.exit(1 if bad else 0)
