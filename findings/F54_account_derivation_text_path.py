"""F54 (C07): bip32.derive_from_account_(acc, 0, Fraction(7, 2)) formatted the index into the text path "m/0/7/2"
and answered a key one level deeper than asked; derive_from_account_range_ likewise. Exit 1 when present."""
import sys
from fractions import Fraction

from btclib.bip32 import bip32
from btclib.exceptions import BTClibTypeError, BTClibValueError

acc = bip32.derive(bip32.rootxprv_from_seed(b"\x01" * 32), "m/84h/0h/0h")
bad = []
for what, f in (("derive_from_account_", lambda: bip32.derive_from_account_(acc, 0, Fraction(7, 2))),
                ("derive_from_account_range_", lambda: bip32.derive_from_account_range_(acc, 0, [Fraction(7, 2)])[0])):
    try:
        k = f()
        bad.append((what, f"answered depth {k.depth} index {k.index}"))
    except (BTClibTypeError, BTClibValueError):
        pass
for b in bad:
    print("DEFECT:", b)
print("ok" if not bad else "")
sys.exit(1 if bad else 0)
