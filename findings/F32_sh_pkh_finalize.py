"""F32 (C10): finalize() of a sh(pkh(KEY)) input wrote a script_sig without the redeem script: the spend the
library built, signed and extracted was refused by its own engine. Exit 1 when present."""
import sys
from btclib.psbt.psbt import _finalized_input
from btclib.psbt.psbt_in import PsbtIn
from btclib.script.script import parse, serialize
from btclib.script.script_pub_key import ScriptPubKey
from btclib.hashes import hash160
from btclib.to_pub_key import pub_keyinfo_from_prv_key
from btclib.tx.tx_out import TxOut

pub, _ = pub_keyinfo_from_prv_key(12345)
redeem = ScriptPubKey.p2pkh(pub).script
spk = serialize(["OP_HASH160", hash160(redeem), "OP_EQUAL"])
sig = bytes.fromhex("3006020101020101") + b"\x01"
psbt_in = PsbtIn(witness_utxo=None, redeem_script=redeem, partial_sigs={pub: sig}, check_validity=False)
from btclib.tx.tx import Tx
from btclib.tx.tx_in import TxIn
from btclib.tx.out_point import OutPoint
prev = Tx(2, 0, [TxIn(OutPoint(b"\x01" * 32, 0), b"", 0)], [TxOut(1000, spk)], check_validity=False)
psbt_in.non_witness_utxo = prev
script_sig, _w = _finalized_input(psbt_in)
pushed = parse(script_sig)
ok = pushed[-1] == redeem.hex().upper() or pushed[-1] == redeem.hex()
print("ok" if ok else f"DEFECT: the script_sig of a sh(pkh()) spend ends with {str(pushed[-1])[:20]}..., not with the redeem script")
sys.exit(0 if ok else 1)
