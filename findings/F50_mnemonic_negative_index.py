"""F50 (C13): mnemonic_from_indexes([-1], "en") answered "zoo" (Python counting from the end) and [2048] was
an IndexError. Exit 1 when present."""
import sys
from btclib.exceptions import BTClibValueError
from btclib.mnemonic.mnemonic import mnemonic_from_indexes

bad = []
for idx in ([-1], [2048]):
    try:
        bad.append((idx, "answered " + mnemonic_from_indexes(idx, "en")))
    except BTClibValueError:
        pass
    except Exception as e:  # noqa: BLE001
        bad.append((idx, type(e).__name__))
for b in bad:
    print("DEFECT:", b)
print("ok" if not bad else "")
sys.exit(1 if bad else 0)
