"""F24 (C19): str.encode() on caller-supplied text raised UnicodeEncodeError for a lone surrogate
out of bip39.seed_from_mnemonic, electrum seed derivation and ScriptPubKey.nulldata -- not a
library exception. Exit 1 when present."""
import sys
from btclib.exceptions import BTClibValueError
from btclib.mnemonic import bip39
from btclib.script.script_pub_key import ScriptPubKey

m = "abandon abandon abandon abandon abandon abandon abandon abandon abandon abandon abandon about"
bad = 0
for name, f in (("bip39 passphrase", lambda: bip39.seed_from_mnemonic(m, "\ud800")),
                ("bip39 mnemonic", lambda: bip39.seed_from_mnemonic(m + " \ud800", "", verify_checksum=False)),
                ("nulldata", lambda: ScriptPubKey.nulldata("\ud800"))):
    try:
        f()
        print("accepted:", name)
    except BTClibValueError:
        print("ok, library error:", name)
    except UnicodeError as e:
        bad += 1
        print("DEFECT:", name, type(e).__name__)
sys.exit(1 if bad else 0)
