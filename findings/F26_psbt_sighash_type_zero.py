"""F26 (C05, C11): PSBT_IN_SIGHASH_TYPE = 0 (SIGHASH_DEFAULT) was parsed and then dropped by
PsbtIn.serialize (written only when truthy): re-serializing a parsed input lost a key-value
pair. Exit 1 when present."""
import sys
from btclib.psbt.psbt_in import PsbtIn

raw = bytes.fromhex("0103" + "04" + "00000000" + "00")
p = PsbtIn.parse(raw)
ok = p.sig_hash_type == 0 and p.serialize() == raw
print("ok" if ok else f"DEFECT: parsed {p.sig_hash_type!r}, re-serialized {p.serialize().hex()} instead of {raw.hex()}")
sys.exit(0 if ok else 1)
