"""F36 (C06): Psbt.b64decode dropped characters outside the base64 alphabet instead of refusing the string.
Exit 1 when present."""
import sys
from btclib.exceptions import BTClibValueError
from btclib.psbt.psbt import Psbt
from btclib.tx.out_point import OutPoint
from btclib.tx.tx import Tx
from btclib.tx.tx_in import TxIn
from btclib.tx.tx_out import TxOut

s = Psbt.from_tx(Tx(2, 0, [TxIn(OutPoint(b"\x01" * 32, 0), b"", 0xFFFFFFFF)], [TxOut(1000, b"\x51")])).b64encode()
bad = s[:10] + "!!" + s[10:]
try:
    Psbt.b64decode(bad)
    print("DEFECT: a string with '!!' in it was decoded as a psbt")
    sys.exit(1)
except BTClibValueError as e:
    print("ok:", str(e)[:60])
