"""F46 (C19): psbt.musig2.session_context / partial_sig_verify / partial_sigs_agg and
psbt.silent_payments.set_input_share raised IndexError for an input index past the psbt's inputs. Exit 1 when present."""
import sys
from btclib.exceptions import BTClibException
from btclib.psbt import musig2 as pm
from btclib.psbt import silent_payments as psp
from btclib.psbt.psbt import Psbt
from btclib.tx.out_point import OutPoint
from btclib.tx.tx import Tx
from btclib.tx.tx_in import TxIn
from btclib.tx.tx_out import TxOut

p = Psbt.from_tx(Tx(2, 0, [TxIn(OutPoint(b"\x01" * 32, 0), b"", 0xFFFFFFFF)], [TxOut(900, b"\x51")]))
agg = b"\x02" + b"\x11" * 32
bad = []
for label, f in (("set_input_share", lambda: psp.set_input_share(p, 5, 1)), ("session_context", lambda: pm.session_context(p, 5, agg)),
                 ("partial_sig_verify", lambda: pm.partial_sig_verify(p, 5, agg, b"\x02" + b"\x22" * 32)), ("partial_sigs_agg", lambda: pm.partial_sigs_agg(p, 5, agg))):
    try:
        f()
    except BTClibException:
        pass
    except Exception as e:  # noqa: BLE001
        bad.append((label, type(e).__name__))
for b in bad:
    print("DEFECT: non-library exception:", b)
print("ok" if not bad else "")
sys.exit(1 if bad else 0)
