import json
def t(label, f):
    try:
        r = f()
        print(f"[{label}] -> returns {r!r}"[:300])
    except BaseException as e:
        lib = any(c.__name__ == "BTClibException" for c in type(e).__mro__)
        print(f"[{label}] -> raises {type(e).__name__}{' (library)' if lib else ' (NOT a library exception)'}: {str(e)[:140]}")
from btclib.psbt.psbt import Psbt
vectors = json.load(open("/tmp/r3_C19/tests/psbt/_data/bip174_test_vectors.json"))
p = Psbt.b64decode(vectors["valid psbts"][0]["encoded psbt"])
d = json.loads(json.dumps(p.to_dict()))
t("J18 Psbt.from_dict({**valid_psbt.to_dict(), 'unknown': 5})", lambda: Psbt.from_dict({**d, "unknown": 5}))
from btclib.script import script_pub_key as spk
from btclib.tx import TxOut
XPRV = b"xprv9s21ZrQH143K2ZP8tyNiUtgoezZosUkw9hhir2JFzDhcUWKz8qFYk3cxdgSFoCMzt8E2Ubi1nXw71TLhwgCfzqFHfM5Snv4zboSebePRmLS"
s = b"\x51" + bytes([len(XPRV)]) + XPRV + b"\x51\xae"
t("P6 is_p2ms(b'\\x51\\x6f' + <111 ascii bytes of an xprv> + b'\\x51\\xae')", lambda: spk.is_p2ms(s))
t("P7 TxOut.parse(value8 + var_bytes(that script)).to_dict()['addresses']", lambda: TxOut.parse((1).to_bytes(8,'little') + bytes([len(s)]) + s).to_dict()["addresses"])
from btclib.mnemonic import dispatch
t("T8 dispatch.seed_type_from_mnemonic('\\udc80')", lambda: dispatch.seed_type_from_mnemonic("\udc80"))
from btclib.wallet import key_wallet
