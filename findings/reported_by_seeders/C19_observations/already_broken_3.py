from io import BytesIO
from pathlib import Path
def t(label, f):
    try:
        r = f()
        print(f"[{label}] -> returns {r!r}"[:300])
    except BaseException as e:
        lib = any(c.__name__ == "BTClibException" for c in type(e).__mro__)
        print(f"[{label}] -> raises {type(e).__name__}{' (library)' if lib else ' (NOT a library exception)'}: {str(e)[:140]}")
from btclib.bip32.key_origin import BIP32KeyOrigin
o = BIP32KeyOrigin(b"\xde\xad\xbe\xef", [1, 2]).serialize()
s = BytesIO(o + b"NEXTNEXT")
t("S1 BIP32KeyOrigin.parse(BytesIO(origin12 + b'NEXTNEXT')); stream.tell()", lambda: (BIP32KeyOrigin.parse(s), s.tell(), len(o)))
from btclib.block.block import Block
from btclib.block.block_filter import BasicBlockFilter
b1 = Path("/tmp/r3_C19/tests/block/_data/block_1.bin").read_bytes()
blk = Block.parse(b1)
f = BasicBlockFilter.from_block(blk, [])
ser = f.serialize()
s2 = BytesIO(ser + b"\x00")
t("S2 BasicBlockFilter.parse(BytesIO(filter + b'\\x00'), hash)", lambda: (BasicBlockFilter.parse(s2, f.block_hash), s2.tell(), len(ser)))
s3 = BytesIO(ser + b"\x00")
t("S2b ... check_validity=False; stream.tell() vs len(filter)", lambda: (BasicBlockFilter.parse(s3, f.block_hash, check_validity=False).encoded_set[-2:], s3.tell(), len(ser)))
