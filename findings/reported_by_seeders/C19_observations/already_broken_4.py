import json
from btclib.psbt.psbt_in import PsbtIn
from btclib.psbt.psbt import leaf_script
def t(label, f):
    try:
        r = f()
        print(f"[{label}] -> returns {r!r}"[:200])
    except BaseException as e:
        lib = any(c.__name__ == "BTClibException" for c in type(e).__mro__)
        print(f"[{label}] -> raises {type(e).__name__}{' (library)' if lib else ' (NOT a library exception)'}: {str(e)[:140]}")
cb = (b"\xc0" + bytes(31) + b"\x01").hex()
d = json.loads(json.dumps(PsbtIn().to_dict()))
good = PsbtIn.from_dict({**d, "taproot_leaf_scripts": {cb: ["51", 192]}})
t("control: leaf version 192 serializes", lambda: good.serialize().hex())
p = PsbtIn.from_dict({**d, "taproot_leaf_scripts": {cb: ["51", 300]}})   # accepted, check_validity=True
t("C1 PsbtIn.from_dict({**PsbtIn().to_dict(), 'taproot_leaf_scripts': {cb_hex: ['51', 300]}}).serialize()", lambda: p.serialize())
t("C2 psbt.leaf_script(that_psbt_in, bytes(32))", lambda: leaf_script(p, bytes(32)))
t("C3 that_psbt_in.assert_valid()", lambda: p.assert_valid())
