"""Every call below is run on the UNCHANGED tree; prints what it returns/raises."""
import json, sys
from pathlib import Path

def t(label, f):
    try:
        r = f()
        print(f"[{label}] -> returns {r!r}"[:300])
    except BaseException as e:
        lib = any(c.__name__ == "BTClibException" for c in type(e).__mro__)
        print(f"[{label}] -> raises {type(e).__name__}{' (library)' if lib else ' (NOT a library exception)'}: {str(e)[:140]}")

K = "0279be667ef9dcbbac55a06295ce870b07029bfcdb2dce28d959f2815b16f81798"
ADDR = "1BvBMSEYstWetqTFn5Au4m4GFg7xJaNVN2"

# --- consumers of parser-accepted objects
from btclib.bip21 import Bip21
t("A1 Bip21.parse('bitcoin:ADDR?label=\\udc80').serialize()", lambda: Bip21.parse(f"bitcoin:{ADDR}?label=\udc80").serialize())

from btclib.psbt.psbt_in import PsbtIn
from btclib.psbt.psbt_size import estimated_input_sizes
from btclib.tx import Tx, TxIn, TxOut, OutPoint
from btclib.script.script_pub_key import ScriptPubKey
prev = Tx(1, 0, [TxIn(OutPoint(b"\x01"*32, 0))], [TxOut(1000, ScriptPubKey.p2pkh(K))])
t("A2 estimated_input_sizes(PsbtIn(non_witness_utxo=prev_1_output), TxIn(OutPoint(prev.id, 5)))", lambda: estimated_input_sizes(PsbtIn(non_witness_utxo=prev), TxIn(OutPoint(prev.id, 5))))

from btclib.block.block import Block
b1 = Path("/tmp/r3_C19/tests/block/_data/block_1.bin").read_bytes()
t("A3 Block.parse(header80 + b'\\x00', check_validity=False).witness_commitment", lambda: Block.parse(b1[:80] + b"\x00", check_validity=False).witness_commitment)

from btclib.script.engine import verify_input
spk = ScriptPubKey.p2wpkh(K)
tx = Tx(2, 0, [TxIn(OutPoint(b"\x01"*32, 0))], [TxOut(900, spk)])
t("A4 verify_input([TxOut], tx_with_1_input, 5)", lambda: verify_input([TxOut(1000, spk)], tx, 5))
t("A5 verify_input([], tx_with_1_input, 0)", lambda: verify_input([], tx, 0))

from btclib.ecc import musig2
from btclib.curves import mult, bytes_from_point
pk = [bytes_from_point(mult(3)), bytes_from_point(mult(4))]
t("A6 musig2.partial_sig_verify(bytes(32), [n, n], [pk0, pk1], [], [], 32*b'm', 5)", lambda: musig2.partial_sig_verify(bytes(32), [pk[0]+pk[1]]*2, pk, [], [], b"m"*32, 5))

# --- json readers
t("J1 TxOut.from_dict({'value':'0.1','scriptPubKey':{'asm':'OP_1','hex':'51'},'network':[]})", lambda: TxOut.from_dict({'value':'0.1','scriptPubKey':{'asm':'OP_1','hex':'51'},'network':[]}))
base_in = json.loads(json.dumps(PsbtIn().to_dict()))
t("J2 PsbtIn.from_dict({**PsbtIn().to_dict(), 'partial_signatures': 5})", lambda: PsbtIn.from_dict({**base_in, "partial_signatures": 5}))
t("J3 PsbtIn.from_dict({**..., 'sig_hash': 'zz'})", lambda: PsbtIn.from_dict({**base_in, "sig_hash": "zz"}))
t("J4 PsbtIn.from_dict({**..., 'output_index': 'zz'})", lambda: PsbtIn.from_dict({**base_in, "output_index": "zz"}))
t("J5 PsbtIn.from_dict({**..., 'taproot_leaf_scripts': {'': None}})", lambda: PsbtIn.from_dict({**base_in, "taproot_leaf_scripts": {"": None}}))
t("J6 PsbtIn.from_dict({**..., 'musig2_participant_pub_keys': {'': None}})", lambda: PsbtIn.from_dict({**base_in, "musig2_participant_pub_keys": {"": None}}))
t("J7 PsbtIn.from_dict({**..., 'unknown': 5})", lambda: PsbtIn.from_dict({**base_in, "unknown": 5}))
from btclib.psbt.psbt_out import PsbtOut
base_out = json.loads(json.dumps(PsbtOut().to_dict()))
t("J8 PsbtOut.from_dict({**PsbtOut().to_dict(), 'taproot_tree': 'zz'})", lambda: PsbtOut.from_dict({**base_out, "taproot_tree": "zz"}))
t("J9 PsbtOut.from_dict({**..., 'taproot_tree': 5})", lambda: PsbtOut.from_dict({**base_out, "taproot_tree": 5}))
t("J10 PsbtOut.from_dict({**..., 'sp_v0_label': 'zz'})", lambda: PsbtOut.from_dict({**base_out, "sp_v0_label": "zz"}))
from btclib.block.block_header import BlockHeader
hd = BlockHeader.parse(b1[:80]).to_dict()
t("J11 BlockHeader.from_dict({**header_1.to_dict(), 'time': '0001-01-01T00:00:00+14:00'})", lambda: BlockHeader.from_dict({**hd, "time": "0001-01-01T00:00:00+14:00"}))
from btclib import core_import
d = f"pkh({K})"
t("J12 core_import.watched_range('pkh(K)', {})", lambda: core_import.watched_range(d, {}))
t("J13 core_import.watched_range('pkh(K)', {'descriptors': [{}]})", lambda: core_import.watched_range(d, {"descriptors": [{}]}))
t("J14 core_import.watched_range('pkh(K)', {'descriptors': [{'desc': 'pkh(K)', 'range': []}]})", lambda: core_import.watched_range(d, {"descriptors": [{"desc": d, "range": []}]}))
t("J15 core_import.assert_imported([{'desc': d}], [5])", lambda: core_import.assert_imported([{"desc": d}], [5]))
from btclib import hwi
fake = lambda code: [sys.executable, "-c", code]
t("J16 hwi.enumerate_devices(executable=<prints '['*100000 + ']'*100000>)", lambda: hwi.enumerate_devices(executable=fake("import sys; sys.stdout.write('['*100000 + ']'*100000)")))
t("J17 hwi.enumerate_devices(executable=<prints '[' + '9'*5000 + ']'>)", lambda: hwi.enumerate_devices(executable=fake("import sys; sys.stdout.write('[' + '9'*5000 + ']')")))

# --- text parsers
from btclib import descriptors
from btclib.descriptors import miniscript
t("T1 descriptors.parse('wsh(and_v(v:pk(K),older(' + '9'*5000 + ')))')", lambda: descriptors.parse(f"wsh(and_v(v:pk({K}),older(" + "9"*5000 + ")))"))
t("T2 miniscript.parse('after(' + '9'*5000 + ')')", lambda: miniscript.parse("after(" + "9"*5000 + ")"))
from btclib.mnemonic import bip39, electrum
m = "abandon abandon abandon abandon abandon abandon abandon abandon abandon abandon abandon about"
t("T3 bip39.seed_from_mnemonic(valid_mnemonic, '\\udc80')", lambda: bip39.seed_from_mnemonic(m, "\udc80"))
t("T4 electrum.version_from_mnemonic('\\udc80')", lambda: electrum.version_from_mnemonic("\udc80"))
t("T5 ScriptPubKey.nulldata('\\udc80')", lambda: ScriptPubKey.nulldata("\udc80"))
from btclib.bip32 import der_path
for p in ["m/１", "m/+1", "m/1_0", "m/ 1", "m//1"]:
    t(f"T6 der_path.indexes_from_der_path({p!r})", lambda: der_path.indexes_from_der_path(p))
from btclib.amount import sats_from_btc
for v in ["１２", "1_0", " 1 "]:
    t(f"T7 sats_from_btc({v!r})", lambda: sats_from_btc(v))

# --- predicates that raise for a value of a declared type
from btclib import b32
t("P1 b32.is_segwit_prefixed(b'\\xff\\xfe')", lambda: b32.is_segwit_prefixed(b"\xff\xfe"))
from btclib.block.block_filter import BasicBlockFilter
blk = Block.parse(b1)
f = BasicBlockFilter.from_block(blk, [])
t("P2 BasicBlockFilter.from_block(block_1, []).match('zz')", lambda: f.match("zz"))
from btclib.ecc import dsa
sig = dsa.sign(b"m", 5)
t("P3 dsa.verify(b'm', (None, None), sig)", lambda: dsa.verify(b"m", (None, None), sig))
from btclib.script import script_pub_key as spkm
wif = b"KwdMAjGmerYanjeui5SHS7JkmpZvVipYvB2LJGU1ZxJwYvP98617"
s2 = b"\x51" + bytes([len(wif)]) + wif + b"\x51\xae"
t("P4 is_p2ms(OP_1 <52 ascii bytes of a WIF private key> OP_1 OP_CHECKMULTISIG)", lambda: spkm.is_p2ms(s2))
from btclib.ecc import borromean
t("P5 borromean.BorromeanSig.parse(bytes(64), ['1'])", lambda: borromean.BorromeanSig.parse(bytes(64), ["1"]))
