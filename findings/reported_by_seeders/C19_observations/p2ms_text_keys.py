from btclib.script import script_pub_key as spk
from btclib.exceptions import BTClibException
def t(name, f):
    try:
        print(name, "->", repr(f())[:120])
    except BaseException as e:
        lib = any(c.__name__ == "BTClibException" for c in type(e).__mro__)
        print(name, "RAISES", type(e).__name__, "(library)" if lib else "(NOT library)", str(e)[:100])
XPRV = b"xprv9s21ZrQH143K2ZP8tyNiUtgoezZosUkw9hhir2JFzDhcUWKz8qFYk3cxdgSFoCMzt8E2Ubi1nXw71TLhwgCfzqFHfM5Snv4zboSebePRmLS"
XPUB = b"xpub661MyMwAqRbcFtXgS5sYJABqqG9YLmC4Q1Rdap9gSE8NqtwybGhePY2gZ29ESFjqJoCu1Rupje8YtGqsefD265TMg7usUDFdp6W1EGMcet8"
WIF = b"KwdMAjGmerYanjeui5SHS7JkmpZvVipYvB2LJGU1ZxJwYvP98617"
HEXKEY = b"0279be667ef9dcbbac55a06295ce870b07029bfcdb2dce28d959f2815b16f81798"
keys = {"xprv text": XPRV, "xpub text": XPUB, "wif text": WIF, "hex text of key": HEXKEY, "32 bytes": bytes(31)+b"\x01", "empty": b"", "64 bytes": bytes(63)+b"\x01", "65 04..": b"\x04"+bytes(64), "non-ascii 111": b"\xff"*111}
for name, k in keys.items():
    s = b"\x51" + bytes([len(k)]) + k + b"\x51\xae"
    t(f"is_p2ms key={name}", lambda: spk.is_p2ms(s))
    t(f"type_and_payload key={name}", lambda: spk.type_and_payload(s)[0])
    from btclib.tx import TxOut
    t(f"TxOut.parse(...).to_dict() key={name}", lambda: TxOut.parse((1).to_bytes(8,'little') + bytes([len(s)]) + s).to_dict()["addresses"])
