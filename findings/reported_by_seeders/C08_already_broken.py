"""Behaviour of the UNCHANGED tree that already departs from Core's verdict.

Run:  PYTHONPATH=<tree> python already_broken.py
"""
import warnings

warnings.simplefilter("ignore")

from btclib.ecc import dsa
from btclib.hashes import sha256
from btclib.script import sig_hash
from btclib.script.engine import ALL_FLAGS, verify_input
from btclib.script.script import serialize
from btclib.script.script_pub_key import ScriptPubKey
from btclib.script.taproot import leaf_hash, output_pubkey_from_merkle_root
from btclib.script.witness import Witness
from btclib.to_pub_key import pub_keyinfo_from_prv_key
from btclib.tx.out_point import OutPoint
from btclib.tx.tx import Tx
from btclib.tx.tx_in import TxIn
from btclib.tx.tx_out import TxOut

G = bytes.fromhex("0279be667ef9dcbbac55a06295ce870b07029bfcdb2dce28d959f2815b16f81798")


def spend(script_sig: bytes, script_pub_key: bytes, witness=(), amount=0):
    prevout = TxOut(amount, ScriptPubKey(script_pub_key))
    tx_in = TxIn(OutPoint(b"\x01" * 32, 0), script_sig, 0xFFFFFFFF, Witness(list(witness)))
    tx = Tx(1, 0, [tx_in], [TxOut(amount, ScriptPubKey(b""))], check_validity=False)
    return [prevout], tx


def verdict(script_sig, script_pub_key, flags, witness=(), amount=0):
    prevouts, tx = spend(script_sig, script_pub_key, witness, amount)
    try:
        verify_input(prevouts, tx, 0, flags)
    except Exception as e:  # noqa: BLE001
        return f"{type(e).__name__}: {e}"
    return "accepted"


CHECKSIG_NOT = b"\xac\x91"

print("A1 DERSIG, DER-valid sig with r=5 (no such x), <G> CHECKSIG NOT   [Core: OK]")
print("   ", verdict(serialize([bytes.fromhex("300602010502010101")]), serialize([G]) + CHECKSIG_NOT, "DERSIG"))
print("A2 DERSIG, DER-valid sig with r=0                                 [Core: OK]")
print("   ", verdict(serialize([bytes.fromhex("300602010002010101")]), serialize([G]) + CHECKSIG_NOT, "DERSIG"))
print("A3 DERSIG, DER-valid sig with s=0                                 [Core: OK]")
print("   ", verdict(serialize([bytes.fromhex("300602010102010001")]), serialize([G]) + CHECKSIG_NOT, "DERSIG"))
n33 = bytes.fromhex("00fffffffffffffffffffffffffffffffebaaedce6af48a03bbfd25e8cd0364141")
sig_rn = b"\x30\x26\x02\x21" + n33 + b"\x02\x01\x01" + b"\x01"
print("A4 DERSIG, DER-valid sig with r=n                                 [Core: OK]")
print("   ", verdict(serialize([sig_rn]), serialize([G]) + CHECKSIG_NOT, "DERSIG"))
print("A5 the same r=5 signature through CHECKMULTISIG NOT, ALL_FLAGS    [Core: OK]")
print("   ", verdict(b"\x00" + serialize([bytes.fromhex("300602010502010101")]), b"\x51" + serialize([G]) + b"\x51\xae\x91", ALL_FLAGS))

print("B1 STRICTENC, empty sig, 1-byte public key 05, CHECKSIG NOT       [Core: PUBKEYTYPE]")
print("   ", verdict(b"\x00", b"\x01\x05" + CHECKSIG_NOT, "STRICTENC"))
print("B2 STRICTENC, empty sig, CHECKMULTISIG NOT with that key          [Core: PUBKEYTYPE]")
print("   ", verdict(b"\x00\x00", b"\x51\x01\x05\x51\xae\x91", "STRICTENC"))
ws = serialize([b"\x04" + b"\x11" * 64]) + CHECKSIG_NOT
print("B3 WITNESS_PUBKEYTYPE, p2wsh, empty sig, uncompressed key         [Core: WITNESS_PUBKEYTYPE]")
print("   ", verdict(b"", b"\x00\x20" + sha256(ws), "P2SH,WITNESS,WITNESS_PUBKEYTYPE", [b"", ws]))

prv = 0x1234567890ABCDEF
pub = pub_keyinfo_from_prv_key(prv, compressed=True)[0]
p2pk = serialize([pub, "OP_CHECKSIG"])


def signed(hash_type, flags, mangle=lambda der: der):
    prevouts, tx = spend(b"", p2pk)
    der = dsa.sign_(sig_hash.legacy(p2pk, tx, 0, hash_type), prv).serialize()
    tx.vin[0].script_sig = serialize([mangle(der) + bytes([hash_type])])
    try:
        verify_input(prevouts, tx, 0, flags)
    except Exception as e:  # noqa: BLE001
        return f"{type(e).__name__}: {e}"
    return "accepted"


print("C1 STRICTENC, valid p2pk signature with hash type byte 0x00       [Core: SIG_HASHTYPE]")
print("   ", signed(0, "STRICTENC"))

print("D1 no flags, valid sig, BER long-form sequence length 30 81 LL    [Core: OK]")
print("   ", signed(1, "", lambda der: der[:1] + b"\x81" + der[1:]))
print("D2 no flags, valid sig, one garbage byte inside the sequence      [Core: OK]")
print("   ", signed(1, "", lambda der: der[:1] + bytes([der[1] + 1]) + der[2:] + b"\x00"))
print("D3 no flags, valid sig, sequence length byte 5 too large          [Core: OK]")
print("   ", signed(1, "", lambda der: der[:1] + bytes([der[1] + 5]) + der[2:]))
print("D4 no flags, valid sig, long-form length of r (02 81 LL)          [Core: OK]")
print("   ", signed(1, "", lambda der: der[:1] + bytes([der[1] + 1]) + der[2:3] + b"\x81" + der[3:]))

print("E1 CONST_SCRIPTCODE, scriptSig '0 IF CHECKSIG ENDIF', spk '1'     [Core: OK]")
print("   ", verdict(b"\x00\x63\xac\x68", b"\x51", "CONST_SCRIPTCODE"))


def tapscript(script: bytes, witness=()):
    nums = bytes.fromhex("50929b74c1a04954b78b4b6035e97a5e078a5a0f28ec96d547bfee9ace803ac0")
    q, parity = output_pubkey_from_merkle_root(nums, leaf_hash(0xC0, script))
    control = bytes([0xC0 | parity]) + nums
    return verdict(b"", b"\x51\x20" + q, ALL_FLAGS, [*witness, script, control], 1000)


print("F1 tapscript '0 IF 0xff ENDIF 1' (0xff never executed)            [Core: OK]")
print("   ", tapscript(bytes.fromhex("0063ff6851")))
print("F2 control: the same bytes as a legacy scriptPubKey, no flags     [Core: OK]")
print("   ", verdict(b"", bytes.fromhex("0063ff6851"), ""))
