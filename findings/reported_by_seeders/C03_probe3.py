import hashlib
from btclib.ecc import ssa
from btclib.curves import secp256k1 as ec, CURVES, set_libsecp256k1_serving
def t(label, f):
    try:
        print(label, "->", repr(f())[:100])
    except Exception as e:
        print(label, "-> RAISES", type(e).__name__, [c.__name__ for c in type(e).__mro__[1:3]], e)
q, x_Q = ssa.gen_keys(0x1234567890ABCDEF)
msg = b"hello world"; aux = bytes(32); ch = bytes(range(32))
ref, rec = ssa.sign_(msg, q, aux, commit_hash=ch)
for serving in (True, False):
    set_libsecp256k1_serving(serving=serving)
    print("== serving", serving)
    t("commit bytes", lambda: ssa.sign_(msg, q, aux, commit_hash=ch) == (ref, rec))
    t("commit hex", lambda: ssa.sign_(msg, q, aux, commit_hash=ch.hex()) == (ref, rec))
    t("commit bytearray", lambda: ssa.sign_(msg, q, aux, commit_hash=bytearray(ch)) == (ref, rec))
    t("commit memoryview", lambda: ssa.sign_(msg, q, aux, commit_hash=memoryview(ch)) == (ref, rec))
    t("aux memoryview + commit", lambda: ssa.sign_(msg, q, memoryview(aux), commit_hash=ch) == (ref, rec))
    t("aux bytearray + commit", lambda: ssa.sign_(msg, q, bytearray(aux), commit_hash=ch) == (ref, rec))
    t("msg memoryview + commit", lambda: ssa.sign_(memoryview(msg), q, aux, commit_hash=ch) == (ref, rec))
    t("verify commit memoryview", lambda: ssa.verify_(msg, x_Q, ref, commit_hash=memoryview(ch), receipt=rec))
    t("verify commit bytearray", lambda: ssa.verify_(msg, x_Q, ref, commit_hash=bytearray(ch), receipt=rec))
    t("verify commit ok", lambda: ssa.verify_(msg, x_Q, ref, commit_hash=ch, receipt=rec))
    t("verify receipt INF", lambda: ssa.verify_(msg, x_Q, ref, commit_hash=ch, receipt=(5, 0)))
    t("verify receipt junk", lambda: ssa.verify_(msg, x_Q, ref, commit_hash=ch, receipt=(1, 2)))
    t("verify receipt str", lambda: ssa.verify_(msg, x_Q, ref, commit_hash=ch, receipt="ab"))
    for hf in (hashlib.sha512, hashlib.sha1):
        s = ssa.sign_(msg, q, None, ec, hf)
        t(f"{hf.__name__} memoryview msg verify", lambda: ssa.verify_(memoryview(msg), x_Q, s, hf))
        t(f"{hf.__name__} bytearray msg sign", lambda: ssa.verify_(msg, x_Q, ssa.sign_(bytearray(msg), q, None, ec, hf), hf))
        t(f"{hf.__name__} sig bytes", lambda: ssa.verify_(msg, x_Q, s.serialize(), hf))
        t(f"{hf.__name__} key G", lambda: ssa.verify_(msg, ec.G[0], ssa.sign_(msg, 1, None, ec, hf), hf))
        t(f"{hf.__name__} key G n-1", lambda: ssa.verify_(msg, ec.G[0], ssa.sign_(msg, ec.n-1, None, ec, hf), hf))
    ec2 = CURVES["secp256r1"]
    q2, x2 = ssa.gen_keys(77, ec2)
    s2 = ssa.sign_(msg, q2, None, ec2)
    t("r1 verify", lambda: ssa.verify_(msg, x2, s2))
    t("r1 verify key on k1 sig", lambda: ssa.verify_(msg, x2, ref))
    t("r1 serialize", lambda: len(s2.serialize()))
    t("r1 batch2", lambda: ssa.batch_verify_([msg]*2, [x2]*2, [s2]*2))
    t("r1 batch 30 dup", lambda: ssa.batch_verify_([msg]*30, [x2]*30, [s2]*30))
set_libsecp256k1_serving(serving=True)
