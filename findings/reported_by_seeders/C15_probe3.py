import sys
sys.path.insert(0, "/tmp/r3_C15/_seed/1")
from demo import PUB, spend
from btclib.descriptors.miniscript import parse
a,b,c,d,e,f = PUB[1:7]
for ex, signers in [
  (f"or_b(andor(pk({a}),pk({b}),pkh({c})),a:multi(2,{d},{e}))", [d,e]),
  (f"thresh(2,andor(pk({a}),pk({b}),pkh({c})),a:multi(2,{d},{e}),s:pk({f}))", [d,e,f]),
  (f"or_d(andor(pk({a}),pk({b}),pkh({c})),multi(2,{d},{e}))", [d,e]),
]:
    n = parse(ex)
    print(n.is_sane, n.max_witness_size, n.max_stack_items, n.max_ops)
    print(spend(ex, signers))
