"""Exact calls behind the 'Already broken on the unchanged tree' list."""
from dataclasses import replace
from datetime import datetime, timedelta, timezone
from pathlib import Path

from btclib.block import Block, BlockHeader, merkle_proof
from btclib.block import proof_of_work as pw
from btclib.block.block_filter import BasicBlockFilter, filter_header, prevout_scripts_from_utxos
from btclib.hashes import hash256, merkle_root_and_mutated_from_hashes, merkle_root_from_branch
from btclib.p2p import GetBlockTxn


def t(label, f):
    try:
        print(f"{label}\n    -> {f()!r}"[:400])
    except Exception as e:  # noqa: BLE001
        print(f"{label}\n    RAISES {type(e).__module__}.{type(e).__name__}: {e}"[:400])


utc = timezone.utc
b170 = Block.parse((Path("tests/block/_data") / "block_170.bin").read_bytes())
leaf = hash256(b"x")

t("pw.block_work('1d80ffff')", lambda: pw.block_work("1d80ffff"))
t("pw.retarget_first_height(-1)", lambda: pw.retarget_first_height(-1))
first = datetime(2020, 1, 1, 0, 0, 0, 900000, tzinfo=utc)
last = datetime(2020, 1, 15, 0, 1, 40, 100000, tzinfo=utc)
t("pw.next_bits('1b400001', first(.9s), last(.1s))", lambda: pw.next_bits("1b400001", first, last).hex())
t("pw.next_bits('1b400001', floor(first), floor(last))", lambda: pw.next_bits("1b400001", first.replace(microsecond=0), last.replace(microsecond=0)).hex())
t("pw.next_bits('1d00ffff', naive, aware)", lambda: pw.next_bits("1d00ffff", datetime(2020, 1, 1), datetime(2020, 1, 15, tzinfo=utc)))
t("merkle_root_from_branch(memoryview(leaf), [leaf], 0, hash256)", lambda: merkle_root_from_branch(memoryview(leaf), [leaf], 0, hash256))
t("merkle_proof.verify(memoryview(leaf), [leaf], 0, leaf)", lambda: merkle_proof.verify(memoryview(leaf), [leaf], 0, leaf))
t("merkle_proof.verify(leaf, [memoryview(leaf)], 0, leaf)", lambda: merkle_proof.verify(leaf, [memoryview(leaf)], 0, leaf))
t("merkle_root_and_mutated_from_hashes(['aa'], hash256)", lambda: merkle_root_and_mutated_from_hashes(["aa"], hash256))
t("merkle_root_and_mutated_from_hashes([b'a'], hash256)", lambda: merkle_root_and_mutated_from_hashes([b"a"], hash256))
t("BasicBlockFilter.from_block(b170, [bytearray(b'\\x51')])", lambda: BasicBlockFilter.from_block(b170, [bytearray(b"\x51")]))
t("BasicBlockFilter.from_block(b170, None)", lambda: BasicBlockFilter.from_block(b170, None))
t("BasicBlockFilter.from_block(None, [])", lambda: BasicBlockFilter.from_block(None, []))
f = BasicBlockFilter.from_block(b170, [b"\x51"])
t("filter.match_any(None)", lambda: f.match_any(None))
t("filter_header(memoryview(bytes(32)), bytes(32))", lambda: filter_header(memoryview(bytes(32)), bytes(32)))
t("prevout_scripts_from_utxos(b170, None)", lambda: prevout_scripts_from_utxos(b170, None))
t("prevout_scripts_from_utxos(None, {})", lambda: prevout_scripts_from_utxos(None, {}))
t("GetBlockTxn(memoryview(bytes(32)), [1]).serialize()", lambda: GetBlockTxn(memoryview(bytes(32)), [1]).serialize())
t("hash(GetBlockTxn(bytearray(32), [1]))", lambda: hash(GetBlockTxn(bytearray(32), [1])))
h2 = replace(b170.header, time=b170.header.time.replace(microsecond=5))
t("header with microsecond=5: (assert_valid(), parse(serialize()) == self)", lambda: (h2.assert_valid(), BlockHeader.parse(h2.serialize()) == h2))
