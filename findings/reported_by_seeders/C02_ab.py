from hashlib import sha256, sha512
from btclib.ecc import dsa
from btclib.ecc.rfc6979_nonce import challenge_
from btclib.curves import secp256k1 as ec, CURVES, mult, curve
def t(label,f):
    try:
        print(label,"->",f())
    except Exception as e:
        print(label,"RAISED",type(e).__name__,":",e)
msg=b"hello"
q,Q=dsa.gen_keys(12345)
sig=dsa.sign(msg,q)
x=Q[0].to_bytes(32,"big"); y=Q[1].to_bytes(32,"big")
hyb=bytes([6+(Q[1]&1)])+x+y
print("== 1 hybrid key, bindings vs python")
for serving in (True,False):
    curve.set_libsecp256k1_serving(serving=serving)
    t(f"serving={serving} dsa.verify(msg, 06/07||x||y, sig)",lambda:dsa.verify(msg,hyb,sig))
    t(f"serving={serving} dsa.sign(msg,q,pub_key=hybrid)==sig",lambda:dsa.sign(msg,q,pub_key=hyb)==sig)
curve.set_libsecp256k1_serving(serving=True)
print("== 2 DER on other curves")
e2=CURVES["secp256r1"]; q2,Q2=dsa.gen_keys(777,e2); s2=dsa.sign(msg,q2,ec=e2)
t("verify(msg,Q2,s2) P-256 Sig object",lambda:dsa.verify(msg,Q2,s2))
t("verify(msg,Q2,s2.serialize())",lambda:dsa.verify(msg,Q2,s2.serialize()))
t("Sig.parse(s2.serialize()).ec == s2.ec",lambda:dsa.Sig.parse(s2.serialize()).ec==s2.ec)
t("Sig.parse(s2.serialize()) == s2",lambda:dsa.Sig.parse(s2.serialize())==s2)
e3=CURVES["secp384r1"]; q3,Q3=dsa.gen_keys(777,e3); s3=dsa.sign(msg,q3,ec=e3,hf=sha512)
t("Sig.parse(P-384 sig .serialize())",lambda:dsa.Sig.parse(s3.serialize()))
e4=CURVES["secp521r1"]; q4,Q4=dsa.gen_keys(777,e4); s4=dsa.sign(msg,q4,ec=e4,hf=sha512)
t("P-521 sig.serialize()[:4].hex()",lambda:s4.serialize()[:4].hex()+" len=%d"%len(s4.serialize()))
print("== 3 exception class between arms, INF candidate")
h=sha256(b"Satoshi Nakamoto").digest(); c=challenge_(h,ec,sha256); K=mult(c); sg=dsa.Sig(K[0],1)
for serving in (True,False):
    curve.set_libsecp256k1_serving(serving=serving)
    t(f"serving={serving} recover_pub_key_(K[1]&1, h, Sig(x(cG),1))",lambda:dsa.recover_pub_key_(K[1]&1,h,sg))
curve.set_libsecp256k1_serving(serving=True)
print("== 4 non-library exceptions")
t("verify(msg,Q,Sig(1.5,5,check_validity=False))",lambda:dsa.verify(msg,Q,dsa.Sig(1.5,5,check_validity=False)))
t("recover_pub_key(1.0,msg,sig)",lambda:dsa.recover_pub_key(1.0,msg,sig))
t("recover_pub_key('1',msg,sig)",lambda:dsa.recover_pub_key("1",msg,sig))
t("recover_pub_key(True,msg,sig)==recover_pub_key(1,...)",lambda:dsa.recover_pub_key(True,msg,sig)==dsa.recover_pub_key(1,msg,sig))
curve.set_libsecp256k1_serving(serving=False)
t("py: recover_pub_key(1.0,msg,sig)",lambda:dsa.recover_pub_key(1.0,msg,sig))
t("py: recover_pub_key('1',msg,sig)",lambda:dsa.recover_pub_key("1",msg,sig))
curve.set_libsecp256k1_serving(serving=True)
print("== 5 hex strings with whitespace / case")
der=sig.serialize().hex()
t("Sig.parse(' '.join(pairs)) == sig",lambda:dsa.Sig.parse(" ".join(der[i:i+2] for i in range(0,len(der),2)))==sig)
t("Sig.parse(der.upper()+'\\n') == sig",lambda:dsa.Sig.parse(der.upper()+"\n")==sig)
print("== 6 key_id as sig Octets DER for other curve recover")
t("recover_pub_keys(msg, s2.serialize()) contains Q2",lambda:Q2 in dsa.recover_pub_keys(msg,s2.serialize()))
