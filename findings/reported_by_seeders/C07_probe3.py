"""Observations on the UNCHANGED tree (run after `git checkout -- .`)."""
import btclib.curves as curves
from btclib.bip32 import *
from btclib.bip32.bip32 import BIP32KeyData

def t(label, f):
    try:
        r = f()
        print(f"{label}\n    -> {r!r}")
    except Exception as e:
        print(f"{label}\n    RAISES {type(e).__module__}.{type(e).__name__} (bases {[c.__name__ for c in type(e).__mro__[1:3]]}): {e}")

seed = "000102030405060708090a0b0c0d0e0f"
root = rootxprv_from_seed(seed)
d = BIP32KeyData.b58decode(root)
acct = derive(root, "m/44h/0h/0h")
mxpub = xpub_from_xprv(acct)
xpub = xpub_from_xprv(root)
px = BIP32KeyData.b58decode(xpub)

print("== 1. one path value, two keys: bytes vs bytearray/memoryview")
t('derive(root, bytes.fromhex("01000000")) == derive(root, "m/1")', lambda: derive(root, bytes.fromhex("01000000")) == derive(root, "m/1"))
t('derive(root, bytearray.fromhex("01000000")) == derive(root, "m/1")', lambda: derive(root, bytearray.fromhex("01000000")) == derive(root, "m/1"))
t('derive(root, bytearray.fromhex("01000000")) == derive(root, "m/1/0/0/0")', lambda: derive(root, bytearray.fromhex("01000000")) == derive(root, "m/1/0/0/0"))
t('indexes_from_der_path(memoryview(bytes.fromhex("01000000")))', lambda: indexes_from_der_path(memoryview(bytes.fromhex("01000000"))))

print("== 2. unordered / non-sequence iterables accepted as a path")
t('indexes_from_der_path({5, 1})', lambda: indexes_from_der_path({5, 1}))
t('indexes_from_der_path({3: "a", 2: "b"})', lambda: indexes_from_der_path({3: "a", 2: "b"}))

print("== 3. derive_from_account_range with a generator: silently []")
t("derive_from_account_range(mxpub, 0, (i for i in range(3)))", lambda: derive_from_account_range(mxpub, 0, (i for i in range(3))))
t("len(derive_from_account_range(mxpub, 0, range(3)))", lambda: len(derive_from_account_range(mxpub, 0, range(3))))
t("derive_from_account_range_(mxpub, 0, iter([0x80000000]))  # hardened index, not refused", lambda: derive_from_account_range_(mxpub, 0, iter([0x80000000])))

print("== 4. non-library exceptions from the account functions")
t('derive_from_account(mxpub, "0", 0)', lambda: derive_from_account(mxpub, "0", 0))
t("derive_from_account(mxpub, 0, None)", lambda: derive_from_account(mxpub, 0, None))

print("== 5. a BIP32KeyData holding buffers (constructor keeps them as they came)")
ba = BIP32KeyData(bytearray(d.version), d.depth, d.parent_fingerprint, d.index, d.chain_code, d.key, check_validity=False)
t("BIP32KeyData(version=bytearray(...), ..., check_validity=False).assert_valid()", lambda: ba.assert_valid())
t("BIP32KeyData(version=bytearray(...), ...)  # default check_validity", lambda: BIP32KeyData(bytearray(d.version), d.depth, d.parent_fingerprint, d.index, d.chain_code, d.key))
mv = BIP32KeyData(d.version, d.depth, d.parent_fingerprint, d.index, d.chain_code, memoryview(d.key))
t("mv = BIP32KeyData(..., key=memoryview(key)) accepted; mv.assert_valid()", lambda: mv.assert_valid())
t('derive(mv, "m/0h")', lambda: derive(mv, "m/0h"))
t('derive(mv, "m/0")', lambda: derive(mv, "m/0"))
t("xpub_from_xprv(mv) == xpub_from_xprv(root)", lambda: xpub_from_xprv(mv) == xpub_from_xprv(root))
pmv = BIP32KeyData(px.version, px.depth, px.parent_fingerprint, px.index, px.chain_code, memoryview(px.key))
t('derive(pmv, "m/0")  # xpub with memoryview key', lambda: derive(pmv, "m/0"))
t("crack_prv_key_var(pmv, derive(root, 3))", lambda: crack_prv_key_var(pmv, derive(root, 3)))
curves.set_libsecp256k1_serving(serving=False)
t('[python arm] derive(mv, "m/0")', lambda: derive(mv, "m/0"))
t('[python arm] derive(pmv, "m/0")', lambda: derive(pmv, "m/0"))
curves.set_libsecp256k1_serving(serving=True)

print("== 6. crack across networks: a mainnet child 'cracks' a testnet parent")
troot = rootxprv_from_seed(seed, "04358394")
t("crack_prv_key_var(xpub_from_xprv(troot), derive(root, 5))  # tpub parent, xprv child", lambda: crack_prv_key_var(xpub_from_xprv(troot), derive(root, 5)))

print("== 7. lenient index spellings")
for p in ["m/-0", "m/-0h", "m/١", "m/１h", "m/1_0", "m/+1"]:
    t(f"indexes_from_der_path({p!r})", lambda: indexes_from_der_path(p))
