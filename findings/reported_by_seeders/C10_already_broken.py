"""Reproductions of behaviour of the UNCHANGED tree that violates the property."""
from btclib import bip322
from btclib.b32 import p2wpkh
from btclib.b58 import wif_from_prv_key
from btclib.descriptors import add_checksum, miniscript_solver, parse
from btclib.ecc import bms, dsa
from btclib.psbt import Psbt, extract_tx, finalize
from btclib.psbt_signer import SoftwareSigner
from btclib.script import serialize, sig_hash
from btclib.script.engine import ALL_FLAGS, ScriptFlag, verify_input, verify_transaction
from btclib.script.script_pub_key import ScriptPubKey
from btclib.script.witness import Witness
from btclib.to_pub_key import pub_keyinfo_from_prv_key
from btclib.tx import OutPoint, Tx, TxIn, TxOut

XPRV = ("xprv9s21ZrQH143K3GJpoapnV8SFfukcVBSfeCficPSGfubmSFDxo1kuHnLisriDvSnRR"
        "uL2Qrg5ggqHKNVpxR86QEC8w35uxmGoggxtQTPvfUu")
signer = SoftwareSigner(XPRV)
fp = signer.master_fingerprint.hex()


def key(purpose, account=0, origin=True):
    xpub = signer.xpub(f"m/{purpose}h/0h/{account}h")
    return (f"[{fp}/{purpose}h/0h/{account}h]" if origin else "") + f"{xpub}/0/*"


def flow(text, solver=None):
    desc = parse(add_checksum(text))
    po = TxOut(100_000, desc.script_pub_key(0))
    ptx = Tx(vin=[TxIn(OutPoint(b"\x09" * 32, 0))], vout=[po])
    tx = Tx(version=2, vin=[TxIn(OutPoint(ptx.id, 0))], vout=[TxOut(90_000, desc.script_pub_key(1))])
    psbt = Psbt.from_tx(tx)
    psbt.inputs[0].non_witness_utxo = ptx
    psbt = desc.update_psbt_input(psbt, 0, 0)
    final = finalize(signer.sign_psbt(psbt), solver=solver)  # does not raise
    t = extract_tx(final)
    verify_transaction([po], t)


def show(label, call):
    try:
        print(f"{label}: returned {call()!r}")
    except Exception as e:  # noqa: BLE001
        print(f"{label}: {type(e).__name__}: {e}")


print("1. sh(pkh(KEY)): finalize drops the redeem script")
show("   sign/finalize/extract/verify_transaction", lambda: flow(f"sh(pkh({key(44)}))"))

print("2. sh(multi(2, 16 keys)): an address is derived for a 547-byte redeem script")
ks = ",".join(key(45, i, origin=i < 2) for i in range(16))
show("   address", lambda: parse(add_checksum(f"sh(multi(2,{ks}))")).address(0))
show("   sign/finalize/extract/verify_transaction", lambda: flow(f"sh(multi(2,{ks}))"))

print("3. wsh(pkh(KEY)) through plain finalize(): a witness without the public key")
show("   finalize(psbt)", lambda: flow(f"wsh(pkh({key(84)}))"))
show("   finalize(psbt, solver=miniscript_solver)", lambda: flow(f"wsh(pkh({key(84)}))", miniscript_solver))

print("4. wsh miniscript with a pkh() of a key that has no origin: the solver answers None, finalize guesses")
text = f"wsh(or_i(and_v(v:pkh({key(48, 1, origin=False)}),older(5)),pk({key(48)})))"
show("   finalize(psbt, solver=miniscript_solver)", lambda: flow(text, miniscript_solver))

print("5. extract_tx of a psbt that is not finalized")
def unfinalized():
    desc = parse(add_checksum(f"wpkh({key(84)})"))
    po = TxOut(100_000, desc.script_pub_key(0))
    ptx = Tx(vin=[TxIn(OutPoint(b"\x09" * 32, 0))], vout=[po])
    psbt = Psbt.from_tx(Tx(version=2, vin=[TxIn(OutPoint(ptx.id, 0))], vout=[TxOut(90_000, desc.script_pub_key(1))]))
    psbt.inputs[0].non_witness_utxo = ptx
    t = extract_tx(signer.sign_psbt(desc.update_psbt_input(psbt, 0, 0)))
    return (t.vin[0].script_sig, t.vin[0].script_witness.stack)
show("   extract_tx(signed, not finalized) -> (script_sig, witness)", unfinalized)

print("6. an ECDSA signature whose hash type byte is 0x00, under STRICTENC")
q = 12345
pub, _ = pub_keyinfo_from_prv_key(q)
spk = ScriptPubKey.p2pkh(pub)
prev = TxOut(50_000, spk)
tx = Tx(vin=[TxIn(OutPoint(b"\x01" * 32, 0))], vout=[TxOut(40_000, spk)])
tx.vin[0].script_sig = serialize([dsa.sign_(sig_hash.legacy(spk.script, tx, 0, 0), q).serialize() + b"\x00", pub])
show("   verify_transaction(.., ALL_FLAGS | STRICTENC)", lambda: verify_transaction([prev], tx, ALL_FLAGS | ScriptFlag.STRICTENC))
q = 0xC0FFEE
pub, _ = pub_keyinfo_from_prv_key(q)
addr = p2wpkh(pub)
spend = bip322.to_spend(b"hello", ScriptPubKey.from_address(addr).script)
to_sign = bip322.to_sign(spend)
sig0 = dsa.sign_(sig_hash.from_tx(spend.vout, to_sign, 0, 0), q).serialize() + b"\x00"
show("   bip322.verify(b'hello', p2wpkh, Sig(Witness([sig||00, pub])))", lambda: bip322.verify(b"hello", addr, bip322.Sig(Witness([sig0, pub]))))

print("7. verify_input with an input index past the inputs")
show("   verify_input([prev], tx, 1)", lambda: verify_input([prev], tx, 1))
show("   verify_input([prev], tx, -1)", lambda: verify_input([prev], tx, -1))

print("8. bms.sign for the key's own bech32 address, upper case")
wif = wif_from_prv_key(0xC0FFEE)
a = p2wpkh(wif)
show("   bms.sign(b'hello', wif, a.upper())", lambda: bms.sign(b"hello", wif, a.upper()).b64encode())
show("   bms.verify(b'hello', a.upper(), bms.sign(b'hello', wif, a))", lambda: bms.verify(b"hello", a.upper(), bms.sign(b"hello", wif, a)))
show("   bip322.verify(b'hello', a.upper(), bip322.sign(b'hello', wif, a.upper()))", lambda: bip322.verify(b"hello", a.upper(), bip322.sign(b"hello", wif, a.upper())))

print("9. wsh(multi(2, 17..20 keys)) is not derivable (BIP383 allows 20 in wsh)")
ks = ",".join(key(48, i, origin=False) for i in range(20))
show("   parse(wsh(multi(2, 20 keys))).script_pub_key(0)", lambda: parse(add_checksum(f"wsh(multi(2,{ks}))")).script_pub_key(0))

print("10. rawtr(KEY): the signer files no signature")
show("   sign/finalize", lambda: flow(f"rawtr({key(86)})"))
