import array, hashlib, io
from btclib.ecc import ssa
from btclib.curves import secp256k1 as ec, set_libsecp256k1_serving, Curve
def t(label, f):
    try:
        print(label, "->", repr(f())[:90])
    except Exception as e:
        print(label, "-> RAISES", type(e).__name__, "(", ", ".join(c.__name__ for c in type(e).__mro__[1:3]), "):", str(e)[:100])
q, x_Q = ssa.gen_keys(0x1234567890ABCDEF)
msg = b"hello world"; aux = bytes(32); ch = bytes(range(32))
sig = ssa.sign_(msg, q, aux); sb = sig.serialize()
t("1a batch_verify_([msg],[x_Q],[sig_bytes])", lambda: ssa.batch_verify_([msg], [x_Q], [sb]))
t("1b batch_verify_([msg]*2,[x_Q]*2,[sig_bytes]*2)", lambda: ssa.batch_verify_([msg]*2, [x_Q]*2, [sb]*2))
t("1c batch_verify_([msg]*2,[x_Q]*2,[sig, None])", lambda: ssa.batch_verify_([msg]*2, [x_Q]*2, [sig, None]))
t("2a sign_(msg,q,memoryview(aux))", lambda: ssa.sign_(msg, q, memoryview(aux)) == sig)
t("2b sign_(msg,q,memoryview(aux),commit_hash=ch)", lambda: ssa.sign_(msg, q, memoryview(aux), commit_hash=ch))
t("3a verify_(msg,x_Q,Sig(5.0,s,check_validity=False)) bindings", lambda: ssa.verify_(msg, x_Q, ssa.Sig(5.0, sig.s, check_validity=False)))
set_libsecp256k1_serving(serving=False)
t("3b same, python arm", lambda: ssa.verify_(msg, x_Q, ssa.Sig(5.0, sig.s, check_validity=False)))
set_libsecp256k1_serving(serving=True)
t("4 verify_(msg,x_Q,Sig('ab',s,check_validity=False))", lambda: ssa.verify_(msg, x_Q, ssa.Sig("ab", sig.s, check_validity=False)))
t("5 verify_(msg,(x_Q,'a'),sig)", lambda: ssa.verify_(msg, (x_Q, "a"), sig))
t("6a Sig(True, 1)", lambda: (ssa.Sig(True, 1).r, ssa.Sig(1, True).s))
t("6b point_from_bip340pub_key((True, y))", lambda: ssa.point_from_bip340pub_key((True, ec.y_even_var(1)))[0])
t("6c verify_(msg, True, sig)", lambda: ssa.verify_(msg, True, sig))
t("7 verify_(msg,x_Q,BytesIO(sig+b'\\x01'))", lambda: ssa.verify_(msg, x_Q, io.BytesIO(sb + b"\x01")))
t("8 sign_(msg,q,None,ec,hashlib.shake_128)", lambda: ssa.sign_(msg, q, None, ec, hashlib.shake_128))
mv32 = memoryview(array.array("I", range(32)))
mv8 = memoryview(array.array("I", range(8)))
t("9a sign_(msg,q,memoryview(array('I',range(32)))) bindings", lambda: ssa.sign_(msg, q, mv32))
t("9b sign_(memoryview(array('I',range(8))),q,aux) bindings", lambda: ssa.sign_(mv8, q, aux))
set_libsecp256k1_serving(serving=False)
t("9c 9a on python arm", lambda: type(ssa.sign_(msg, q, mv32)).__name__)
t("9d 9b on python arm", lambda: ssa.sign_(mv8, q, aux) == ssa.sign_(mv8.tobytes(), q, aux))
set_libsecp256k1_serving(serving=True)
# 10: toy-curve batch, two copies of one invalid member
toy = Curve(23, 9, 7, (5, 4), 19, 1, False)
qq, xx = ssa.gen_keys(3, toy)
m = b"m1"; s = ssa.sign_(m, qq, aux, toy)
bad_m = b"another message"
print("10 single verify of the wrong message:", ssa.verify_(bad_m, xx, s))
acc = sum(ssa.batch_verify_([bad_m, bad_m], [xx, xx], [s, s]) for _ in range(2000))
print("10 batch of two copies of it accepted", acc, "times out of 2000")
