from btclib.descriptors.miniscript import parse, from_script, reads_back, Miniscript, SpendContext, P2WSH, TAPSCRIPT
from btclib.descriptors.key_expression import KeyExpression
from btclib.exceptions import BTClibValueError, BTClibTypeError
from btclib.to_pub_key import pub_keyinfo_from_prv_key
PUB = [pub_keyinfo_from_prv_key((31 * b"\x00" + bytes([i])).hex())[0].hex() for i in range(1, 10)]
A,B,C,D = PUB[1:5]
X = A[2:]
def t(label, f):
    try:
        r = f()
        print(label, "->", repr(r)[:260])
    except (BTClibValueError, BTClibTypeError) as e:
        print(label, "-> lib", type(e).__name__, str(e)[:160])
    except BaseException as e:
        print(label, "-> NONLIB", type(e).__name__, str(e)[:100])
print("A =", A)
t("1 parse('older('+'9'*5000+')')", lambda: parse("older(" + "9"*5000 + ")"))
t("2a from_script('51','bogus').context", lambda: from_script("51", "bogus").context)
t("2b reads_back('51','bogus')", lambda: reads_back("51", "bogus"))
t("2c parse('1','bogus')", lambda: parse("1", "bogus"))
n = from_script("21" + "05" + "11"*32 + "ac")
t("3a str,is_sane,reads_back", lambda: (str(n), n.is_sane, reads_back("21" + "05" + "11"*32 + "ac")))
t("3b parse(str(n))", lambda: parse(str(n)))
e = f"and_v(v:pk(02{X}),pk(03{X}))"
t("4 tapscript dup", lambda: (parse(e, TAPSCRIPT).is_sane, parse(e, TAPSCRIPT).has_duplicate_keys, parse(e, TAPSCRIPT).script().hex()))
n = parse(f"or_d(andor(pk({A}),pk({B}),pk({C})),pk({D}))")
t("5a", lambda: (n.is_sane, n.max_witness_size, n.max_witness_stack, sum(x+1 for x in n.max_witness_stack)))
n2 = parse(f"or_b(multi(2,{A},{B}),al:and_v(v:pkh({C}),multi(1,{D})))")
t("5b", lambda: (n2.is_sane, n2.max_witness_size, n2.max_witness_stack, sum(x+1 for x in n2.max_witness_stack)))
t("6a pk(A).satisfy({A: b''})", lambda: parse(f"pk({A})").satisfy({A: b""}))
t("7a satisfy(spend=5)", lambda: parse(f"and_v(v:pk({A}),older(5))").satisfy({A: "30"*71+"01"}, spend=5))
t("7b from_script key_hashes list", lambda: from_script(parse(f"pkh({A})").script(), P2WSH, [1,2]))
t("7c Miniscript older 1.0", lambda: Miniscript("older", threshold=1.0))
t("7d Miniscript older True", lambda: Miniscript("older", threshold=True).script().hex())
pk_t = Miniscript("pk_k", TAPSCRIPT, keys=(KeyExpression(pub_key=bytes.fromhex(A)),))
mixed = Miniscript("c:", P2WSH, (pk_t,))
t("8a mixed", lambda: (mixed.is_sane, mixed.script().hex()))
t("8b mixed from_script", lambda: from_script(mixed.script()))
t("8c mixed reparse eq", lambda: parse(str(mixed)) == mixed)
t("9a ws digest", lambda: str(parse(f"and_v(v:pk({A}),sha256(" + " 00"*32 + "))"))[-80:])
t("9b older(010)", lambda: str(parse(f"and_v(v:pk({A}),older(010))"))[-12:])
e = "n"*297 + f":pk({A})"
t("10 deep eq", lambda: (parse(e, TAPSCRIPT).is_sane, parse(e, TAPSCRIPT) == parse(e, TAPSCRIPT)))
t("10b deep hash", lambda: hash(parse(e, TAPSCRIPT)))
