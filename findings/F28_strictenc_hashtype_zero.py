"""F28 (C08): under STRICTENC the engine accepted an ECDSA signature whose hash type byte is 0x00
(taproot's SIGHASH_DEFAULT is a member of SIG_HASH_TYPES); Core: SCRIPT_ERR_SIG_HASHTYPE. Exit 1 when present."""
import sys
from btclib.ecc import dsa
from btclib.exceptions import BTClibValueError
from btclib.script.engine.flags import ScriptFlag
from btclib.script.engine.script import fix_signature

sig = dsa.sign(b"x", 5).serialize()
try:
    fix_signature(sig + b"\x00", ScriptFlag.STRICTENC)
    print("DEFECT: hash type 0x00 accepted under STRICTENC")
    sys.exit(1)
except BTClibValueError:
    print("ok")
