"""F14 (C08): Core's CheckPubKeyEncoding fails the script with WITNESS_PUBKEYTYPE for *every*
key that is not a well-formed compressed key in a witness v0 script (wrong length, unknown
prefix, empty) -- not only for the 0x04/0x06/0x07 prefixes. The engine answered False for the
others, so under WITNESS_PUBKEYTYPE without STRICTENC `<sig> <33 bytes, prefix 05> CHECKSIG NOT`
was accepted where Core refuses. Exit 1 when the defect is present."""
import sys
from btclib.exceptions import BTClibValueError
from btclib.script.engine.flags import ScriptFlag
from btclib.script.engine.script import check_pub_key

bad = 0
for key in (b"\x05" + b"\x00" * 32, b"\x02" + b"\x00" * 31, b"", b"\x03" + b"\x00" * 40):
    try:
        r = check_pub_key(key, True, ScriptFlag.WITNESS_PUBKEYTYPE)
        print(f"DEFECT: key {key.hex()[:12]}.. ({len(key)} bytes) answered {r}: the CHECKSIG fails quietly and a following NOT accepts")
        bad += 1
    except BTClibValueError as e:
        print(f"ok: key of {len(key)} bytes refused: {e}")
# legacy scripts and well-formed compressed keys are untouched
assert check_pub_key(b"\x05" + b"\x00" * 32, False, ScriptFlag.WITNESS_PUBKEYTYPE) is False
assert check_pub_key(b"\x02" + b"\x00" * 32, True, ScriptFlag.WITNESS_PUBKEYTYPE) is True
sys.exit(1 if bad else 0)
