"""F21 (C05/C20): Message.serialize and BorromeanSig.serialize started from the object's own field
(`out = self.magic` / `out = self.e0`) and grew it with `+=`. For a field held as a bytearray that
extends the field itself: the second serialize of one p2p message raised "invalid magic: 32 instead
of 4 bytes", and a ring signature's e0 grew on every call. Exit 1 when present."""
import sys
from btclib.curves.curve import secp256k1 as ec
from btclib.ecc.borromean import BorromeanSig
from btclib.p2p.message import Message

bad = 0
m = Message(bytearray(b"\xf9\xbe\xb4\xd9"), "ping", b"\x00" * 8)
a = bytes(m.serialize())
try:
    b = bytes(m.serialize())
    if a != b or len(m.magic) != 4:
        bad += 1
        print("DEFECT: Message changed by its own serialize:", len(m.magic), "bytes of magic")
except Exception as e:  # noqa: BLE001
    bad += 1
    print("DEFECT: second Message.serialize raised", type(e).__name__, e)
s = BorromeanSig(bytearray(b"\x11" * 32), [[1, 2], [3]], ec)
a = bytes(s.serialize())
b = bytes(s.serialize())
if a != b or len(s.e0) != 32:
    bad += 1
    print("DEFECT: BorromeanSig.e0 is", len(s.e0), "bytes after two serializations")
print("ok" if not bad else "")
sys.exit(1 if bad else 0)
