"""F33 (C06, C14): the wallet ledger found an address under a mixed-case spelling of it (BIP173: mixed case
MUST be refused; b32.witness_from_address refuses it). Exit 1 when present."""
import sys
from btclib.wallet import KeyWallet

w = KeyWallet([1], "p2wpkh")
addr = w.addresses[0]
mixed = addr[:10] + addr[10:].upper()
ok = mixed not in w and addr.upper() in w and addr in w
print("ok" if ok else f"DEFECT: {mixed!r} in wallet -> {mixed in w}")
sys.exit(0 if ok else 1)
