"""F20 (C07): __prv_key_derivation built the HMAC data with `xb = xkey.key` ... `xb += ser32(i)`.
For a key held as a bytearray (which BIP32KeyData accepts) the += extends the key itself: the
hardened step then fails ("the child private key is zero") -- or, were it to succeed, the key
would be 37 bytes afterwards. The same key held as bytes derives. Exit 1 when present."""
import sys
from btclib.bip32.bip32 import BIP32KeyData, derive_, rootxprv_from_seed_
from btclib.exceptions import BTClibValueError

root = rootxprv_from_seed_(b"\x01" * 32)
want = derive_(root, "m/0h/1").b58encode()
held = BIP32KeyData(version=root.version, depth=root.depth, parent_fingerprint=root.parent_fingerprint, index=root.index,
                    chain_code=root.chain_code, key=bytearray(root.key))
try:
    got = derive_(held, "m/0h/1").b58encode()
except BTClibValueError as e:
    print("DEFECT: refused:", e)
    sys.exit(1)
ok = got == want and len(held.key) == 33 and derive_(held, "m/0h/1").b58encode() == want
print("ok" if ok else f"DEFECT: got {got[:20]}.. key is now {len(held.key)} bytes")
sys.exit(0 if ok else 1)
