"""F15 (C04): a BIP340 signature with s = c*q (so K = s*G - c*Q is infinite) failed verification
with BTClibRuntimeError on the libsecp256k1 arm and with BTClibValueError('INF has no
y-coordinate') on the Python arm: the same input, two exception classes. Exit 1 when present."""
import hashlib, sys
from btclib import curves
from btclib.curves.curve import mult, secp256k1 as ec
from btclib.ecc import ssa

q = 12345
Q = mult(q)
if Q[1] % 2:
    q = ec.n - q
msg = b"\x11" * 32
r = mult(7)[0]
c = ssa.challenge_(msg, Q[0], r, ec, hashlib.sha256)
sig = ssa.Sig(r, c * q % ec.n, ec)
seen = {}
for serving in (True, False):
    curves.set_libsecp256k1_serving(serving=serving)
    try:
        ssa.assert_as_valid_(msg, Q[0], sig)
        seen[serving] = "accepted"
    except Exception as e:  # noqa: BLE001
        seen[serving] = type(e).__name__
curves.set_libsecp256k1_serving(serving=True)
print(seen)
sys.exit(0 if len(set(seen.values())) == 1 else 1)
