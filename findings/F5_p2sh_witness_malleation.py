from btclib.ecc import dsa
from btclib.hashes import hash160
from btclib.script import sig_hash
from btclib.script.script import serialize
from btclib.script.script_pub_key import ScriptPubKey
from btclib.script.engine import verify_input
from btclib.script.witness import Witness
from btclib.tx import Tx, TxIn, TxOut, OutPoint
from btclib.to_pub_key import pub_keyinfo_from_prv_key
q=0x1234567
pub=pub_keyinfo_from_prv_key(q)[0]
redeem=ScriptPubKey.p2wpkh(pub).script
spk=ScriptPubKey.p2sh(redeem)
prev=TxOut(100000, spk)
def spend(script_sig):
    tx=Tx(2,0,[TxIn(OutPoint(b'\x11'*32,0),script_sig,0xffffffff)],[TxOut(90000,ScriptPubKey.p2wpkh(pub))])
    h=sig_hash.from_tx([prev],tx,0,1)
    sig=dsa.sign_(h,q).serialize()+b'\x01'
    tx.vin[0].script_witness=Witness([sig,pub])
    return tx
for name,ss in (('canonical',serialize([redeem])),('extra push',serialize([b'\x01',redeem])),('two extra',serialize([b'\x01',b'\x02',redeem]))):
    tx=spend(ss)
    try:
        verify_input([prev],tx,0); print(name,'ACCEPTED')
    except Exception as e: print(name,'refused:',type(e).__name__,e)
