"""F11 (C05): a global map holding PSBT_GLOBAL_VERSION and a second 0xfb-typed key with
key data parses, and the second pair is silently dropped -- or is refused, depending on
which of the two the map yields first. Exit 1 when the defect is present."""
import sys
from btclib.psbt.psbt import Psbt
from btclib.exceptions import BTClibValueError

def kv(k: bytes, v: bytes) -> bytes:
    return bytes([len(k)]) + k + bytes([len(v)]) + v

def psbt(pairs) -> bytes:
    g = b"".join(kv(k, v) for k, v in pairs)
    return b"psbt\xff" + g + b"\x00"

base = [(b"\x02", (2).to_bytes(4, "little")), (b"\x04", b"\x00"), (b"\x05", b"\x00")]
ver = (b"\xfb", (2).to_bytes(4, "little"))
extra = (b"\xfb\x01", b"\xaa")
out = []
for order in ([ver, extra], [extra, ver]):
    data = psbt(base + order)
    try:
        p = Psbt.parse(data)
        again = p.serialize()
        out.append(("accepted", extra[0] in again or b"\xfb\x01" in again))
    except BTClibValueError as e:
        out.append(("refused", str(e)))
print(out)
bad = any(o[0] == "accepted" and not o[1] for o in out) or len({o[0] for o in out}) > 1
print("DEFECT: a key-value pair is dropped / acceptance depends on key order" if bad else "ok: refused whichever comes first")
sys.exit(1 if bad else 0)
