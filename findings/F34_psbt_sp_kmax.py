"""F34 (C16): psbt.silent_payments.output_scripts counted the outputs of one scan key without bound, where
BIP352 caps them at K_MAX (a scanner stops there) and silent_payments.output_keys refuses the same payment.
Shown with K_MAX lowered to 2 for the duration of the call (the bound is read at call time; 2324 real outputs
take minutes): three outputs to one scan key must be refused. Exit 1 when present."""
import copy
import json
import sys

from btclib import silent_payments as sp
from btclib.exceptions import BTClibValueError
from btclib.psbt import Psbt
from btclib.psbt import silent_payments as role

vectors = json.load(open("/repo/tests/psbt/_data/bip375_test_vectors.json"))
psbt = None
for case in vectors["valid"]:
    p = Psbt.b64decode(case["psbt"])
    outs = [o for o in p.outputs if o.sp_v0_info]
    if len(outs) >= 1 and role.output_scripts(p):
        psbt = p
        break
if psbt is None:
    print("no usable vector")
    sys.exit(2)
first = next(o for o in psbt.outputs if o.sp_v0_info)
psbt.outputs += [copy.deepcopy(first), copy.deepcopy(first)]
saved = sp.K_MAX
sp.K_MAX = 2
try:
    scripts = role.output_scripts(psbt)
    print(f"DEFECT: {len(scripts)} scripts written for one scan key with K_MAX = 2")
    rc = 1
except BTClibValueError as e:
    print("ok:", e)
    rc = 0
finally:
    sp.K_MAX = saved
sys.exit(rc)
