from btclib.hashes import tagged_hash
from btclib.curves import secp256k1 as ec, mult
add_var=ec.add_var
from btclib import var_bytes
from btclib.script.script_pub_key import ScriptPubKey
from btclib.script.engine import verify_input
from btclib.script.witness import Witness
from btclib.tx import Tx, TxIn, TxOut, OutPoint
def spend(script):
    q=0x1234567
    P=mult(q)
    if P[1]%2: P=(P[0],ec.p-P[1])
    px=P[0].to_bytes(32,'big')
    lh=tagged_hash(b"TapLeaf", b"\xc0"+var_bytes.serialize(script))
    t=int.from_bytes(tagged_hash(b"TapTweak", px+lh),'big')
    Q=add_var(P, mult(t))
    spk=b"\x51\x20"+Q[0].to_bytes(32,'big')
    control=bytes([0xc0|(Q[1]%2)])+px
    prev=TxOut(100000, ScriptPubKey(spk))
    tx=Tx(2,0,[TxIn(OutPoint(b'\x11'*32,0),b'',0xffffffff)],[TxOut(90000,ScriptPubKey(spk))])
    tx.vin[0].script_witness=Witness([script,control])
    try: verify_input([prev],tx,0); return 'ACCEPTED'
    except Exception as e: return f'refused: {type(e).__name__}: {e}'
print('OP_0 OP_IF 0xff OP_ENDIF OP_1 :', spend(bytes([0x00,0x63,0xff,0x68,0x51])))
print('OP_0 OP_IF OP_RESERVED.. (0x89 is success)   OP_1 only:', spend(bytes([0x51])))
print('executed 0xff:', spend(bytes([0xff,0x51])))
