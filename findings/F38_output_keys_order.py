"""F38 (C16): silent_payments.output_keys answered the keys group by group ([X, X', Y] for the addresses
[X, Y, X']) where it promises one key per address in the order given: a caller pairing keys with amounts by
position pays the wrong recipient. Exit 1 when present."""
import sys
from btclib import silent_payments as sp
from btclib.curves import mult
from btclib.script.script_pub_key import ScriptPubKey
from btclib.to_pub_key import pub_keyinfo_from_prv_key
from btclib.tx.out_point import OutPoint

X = sp.address_from_keys(mult(11), mult(12))
Y = sp.address_from_keys(mult(21), mult(22))
X1 = sp.labeled_address_from_keys(11, mult(12), 1)
spk = ScriptPubKey.p2wpkh(pub_keyinfo_from_prv_key(6)[0]).script
ops = [OutPoint(b"\x01" * 32, 0)]
keys = sp.output_keys([(6, spk)], ops, [X, Y, X1])
alone = sp.output_keys([(6, spk)], ops, [Y])
ok = keys[1] == alone[0]
print("ok" if ok else "DEFECT: the key at position 1 is not the one derived for the address at position 1")
sys.exit(0 if ok else 1)
