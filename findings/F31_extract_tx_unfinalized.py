"""F31 (C11, C10): extract_tx answered a transaction for a psbt none of whose inputs was finalized
(empty script_sig, no witness) instead of refusing it, as BIP174's Extractor must. Exit 1 when present."""
import sys
from btclib.exceptions import BTClibValueError
from btclib.psbt.psbt import Psbt, extract_tx
from btclib.tx.out_point import OutPoint
from btclib.tx.tx import Tx
from btclib.tx.tx_in import TxIn
from btclib.tx.tx_out import TxOut

tx = Tx(2, 0, [TxIn(OutPoint(b"\x01" * 32, 0), b"", 0xFFFFFFFF)], [TxOut(1000, b"\x51")])
psbt = Psbt.from_tx(tx)
try:
    t = extract_tx(psbt)
    print(f"DEFECT: extract_tx answered {t.id.hex()} for a psbt with no finalized input")
    sys.exit(1)
except BTClibValueError as e:
    print("ok:", e)
