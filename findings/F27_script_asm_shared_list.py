"""F27 (C20): Script.asm was a cached_property returning the cached list itself: a caller
editing the list it was handed changed every later read. Exit 1 when present."""
import sys
from btclib.script.script import Script

s = Script(bytes.fromhex("76a914" + "11" * 20 + "88ac"))
before = list(s.asm)
s.asm.append("OP_1")
ok = s.asm == before
print("ok" if ok else f"DEFECT: .asm now answers {s.asm}")
sys.exit(0 if ok else 1)
