"""F41 (C19): BlockHeader.from_dict with the time "0001-01-01T00:00:00+14:00" raised a builtin ValueError
("year 0 is out of range") while building the 'before genesis' message. Exit 1 when present."""
import sys
from datetime import datetime, timezone
from btclib.block.block_header import BlockHeader
from btclib.exceptions import BTClibException

h = BlockHeader(1, b"\x00" * 32, b"\x11" * 32, datetime(2020, 1, 1, tzinfo=timezone.utc), bytes.fromhex("1d00ffff"), 5, check_validity=False)
try:
    BlockHeader.from_dict({**h.to_dict(), "time": "0001-01-01T00:00:00+14:00"})
    print("accepted?")
    sys.exit(1)
except BTClibException as e:
    print("ok:", str(e)[:70])
except Exception as e:  # noqa: BLE001
    print("DEFECT: non-library exception:", type(e).__name__, e)
    sys.exit(1)
