"""F42 (C17): block_work credited work to bits whose sign bit is set (0x1d80ffff), where Core's GetBlockProof
answers 0 (and btclib refuses the other two invalid cases). Exit 1 when present."""
import sys
from btclib.block import proof_of_work as pw
from btclib.exceptions import BTClibValueError

try:
    w = pw.block_work("1d80ffff")
    print(f"DEFECT: negative bits credited {w} hashes of work")
    sys.exit(1)
except BTClibValueError as e:
    print("ok:", e)
