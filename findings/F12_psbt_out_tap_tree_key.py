"""F12 (C05): PsbtOut.parse read PSBT_OUT_TAP_TREE's value without looking at the key, so
`06 01` (the type byte followed by key data) was accepted as the field and written back as
`06`: the pair is renamed, and `06` + `06 01` collapse into one. Exit 1 when present."""
import sys
from btclib.exceptions import BTClibValueError
from btclib.psbt.psbt_out import PsbtOut

def kv(k, v): return bytes([len(k)]) + k + bytes([len(v)]) + v
leaf = bytes([0, 0xC0, 1, 0x51])
data = kv(b"\x06\x01", leaf) + b"\x00"
try:
    o = PsbtOut.parse(data, psbt_version=0)
except BTClibValueError as e:
    print("ok: refused:", e); sys.exit(0)
print("DEFECT: accepted", data.hex(), "and wrote back", o.serialize().hex())
sys.exit(1)
