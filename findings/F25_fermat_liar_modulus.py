"""F25 (C01, known finding): the primality test of a curve's p and n is one Fermat test to base 2
(documented as a deliberate choice in _is_prime's docstring), so a base-2 pseudoprime passes:
CurveGroup(341, 1, 1) -- 341 = 11 * 31 -- is built over a ring that is not a field, and
Curve(3181, 2, 26, (1, 541), 3277, 1) is accepted with n = 29 * 113. "A malformed curve is refused
rather than answered" does not hold for these. Exit 1 while present."""
import sys
from btclib.curves.curve import Curve
from btclib.curves.curve_group import CurveGroup
from btclib.exceptions import BTClibValueError

bad = 0
for what, build in (("CurveGroup(341, 1, 1)", lambda: CurveGroup(341, 1, 1)),
                    ("Curve(3181, 2, 26, (1, 541), 3277, 1)", lambda: Curve(3181, 2, 26, (1, 541), 3277, 1))):
    try:
        build()
        bad += 1
        print("accepted:", what)
    except BTClibValueError as e:
        print("refused:", what, "--", e)
sys.exit(1 if bad else 0)
