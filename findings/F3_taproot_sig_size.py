from btclib.ecc import ssa
from btclib.script import sig_hash
from btclib.script.script_pub_key import ScriptPubKey
from btclib.script.taproot import output_pubkey, output_prvkey
from btclib.script.engine import verify_input
from btclib.script.witness import Witness
from btclib.tx import Tx, TxIn, TxOut, OutPoint
q=0x1234567
Q=output_pubkey(q)[0] if not isinstance(output_pubkey(q),bytes) else output_pubkey(q)
spk=ScriptPubKey.p2tr(q)
prev=TxOut(100000, spk)
tx=Tx(2,0,[TxIn(OutPoint(b'\x11'*32,0),b'',0xffffffff)],[TxOut(90000,spk)])
h=sig_hash.taproot(tx,0,[prev],0,0,b'',b'')
tq=output_prvkey(q)
sig=ssa.sign_(h,tq).serialize()
for name,s in (('64',sig),('66',sig+b'\x00\x00'),('67',sig+b'\x00\x00\x00'),('63',sig[:63])):
    tx.vin[0].script_witness=Witness([s])
    try: verify_input([prev],tx,0); print(name,'ACCEPTED')
    except Exception as e: print(name,'refused:',type(e).__name__,e)
