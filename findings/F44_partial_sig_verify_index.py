"""F44 (C19): musig2.partial_sig_verify(..., i=5) with two signers raised a builtin IndexError out of a
predicate. Exit 1 when present."""
import sys
from btclib.curves import mult
from btclib.curves.sec_point import bytes_from_point
from btclib.ecc import musig2
from btclib.exceptions import BTClibException

pks = [bytes_from_point(mult(k)) for k in (1, 2)]
nonces = [bytes(musig2.nonce_gen(k, pk)[1]) for k, pk in zip((1, 2), pks)]
try:
    musig2.partial_sig_verify(bytes(32), nonces, pks, [], [], bytes(32), 5)
    print("answered?")
    sys.exit(2)
except BTClibException as e:
    print("ok:", str(e)[:60])
except IndexError as e:
    print("DEFECT: IndexError:", e)
    sys.exit(1)
