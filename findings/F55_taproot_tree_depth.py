"""F55 (C12): taproot.tree_helper committed to a leaf at depth 129, and input_script_sig handed out a control block
check_output_pubkey refuses as too long. Exit 1 when present."""
import sys

from btclib.exceptions import BTClibValueError
from btclib.script import taproot

sys.setrecursionlimit(5000)
tree = [(0xC0, ["OP_1"])]
for _ in range(129):
    tree = [tree, [(0xC0, ["OP_2"])]]
try:
    taproot.output_pubkey(None, tree)
    print("DEFECT: a tree 129 deep is committed to")
    sys.exit(1)
except BTClibValueError:
    print("ok")
    sys.exit(0)
