"""F53 (C12): taproot.output_pubkey(b"", tree), (0, tree) and ("", tree) answered output_pubkey(None, tree) -- the
key over the unspendable point -- because the internal key's presence was decided by truthiness. Exit 1 when present."""
import sys

from btclib.exceptions import BTClibTypeError, BTClibValueError
from btclib.script import taproot

tree = [(0xC0, ["OP_1"])]
unspendable = taproot.output_pubkey(None, tree)
bad = []
for k in (b"", 0, ""):
    try:
        got = taproot.output_pubkey(k, tree)
    except (BTClibValueError, BTClibTypeError):
        continue
    bad.append((k, "answered the NUMS output key" if got == unspendable else got[0].hex()))
for b in bad:
    print("DEFECT:", b)
print("ok" if not bad else "")
sys.exit(1 if bad else 0)
