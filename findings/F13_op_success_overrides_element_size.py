"""F13 (C08): BIP342 / Core (ExecuteWitnessScript): "OP_SUCCESSx processing overrides
everything, including stack element size limits". The engine applied the 520-byte
witness-element limit before looking for OP_SUCCESS, so a tapscript containing an
OP_SUCCESS spent with a witness element of 521 bytes was refused where Core accepts.
Exit 1 when the defect is present."""
import sys
from btclib.exceptions import BTClibValueError
from btclib.script.engine import tapscript
from btclib.script.engine.flags import to_script_flags

stack = [b"\x00" * 521]
try:
    tapscript.verify_script_path_vc0(b"\x50", stack, [], None, 0, b"", 50, to_script_flags([]), None)
except BTClibValueError as e:
    print("DEFECT: refused:", e)
    sys.exit(1)
except TypeError as e:
    print("demo signature mismatch:", e)
    sys.exit(2)
print("ok: OP_SUCCESS overrides the element size limit")
sys.exit(0)
