"""F56/F57/F58 (C19): IndexError out of the library on caller-shaped input: psbt.combine([]);
psbt_size.estimated_input_sizes with an outpoint past the non_witness_utxo's outputs; sig_hash.taproot under
ANYONECANPAY|NONE with fewer prevouts than inputs. Exit 1 when present."""
import sys

from btclib.exceptions import BTClibTypeError, BTClibValueError
from btclib.psbt import psbt_size
from btclib.psbt.psbt import combine
from btclib.psbt.psbt_in import PsbtIn
from btclib.script import sig_hash
from btclib.tx.out_point import OutPoint
from btclib.tx.tx import Tx
from btclib.tx.tx_in import TxIn
from btclib.tx.tx_out import TxOut

prev = Tx(vin=[TxIn(OutPoint(b"\x01" * 32, 0))], vout=[TxOut(1000, "0014" + "00" * 20)])
two = Tx(vin=[TxIn(OutPoint(b"\x01" * 32, 0)), TxIn(OutPoint(b"\x02" * 32, 0))], vout=[TxOut(1000, "0014" + "00" * 20)])
cases = (
    ("combine([])", lambda: combine([])),
    ("estimated_input_sizes", lambda: psbt_size.estimated_input_sizes(PsbtIn(non_witness_utxo=prev), TxIn(OutPoint(prev.id, 5)))),
    ("sig_hash.taproot", lambda: sig_hash.taproot(two, 1, [TxOut(1000, "5120" + "11" * 32)], 0x82, 0, b"", b"")),
)
bad = []
for name, f in cases:
    try:
        f()
    except (BTClibValueError, BTClibTypeError):
        continue
    except Exception as e:  # noqa: BLE001
        bad.append((name, type(e).__name__))
for b in bad:
    print("DEFECT:", b)
print("ok" if not bad else "")
sys.exit(1 if bad else 0)
