"""F16 (C04, known finding): dsa.recover_pub_key_ on a signature whose recovered key is the point
at infinity (s*K == c*G) raises BTClibValueError when libsecp256k1 serves and BTClibRuntimeError
on the Python arithmetic. Exit 1 while the two arms disagree on the class."""
import hashlib, sys
from btclib import curves
from btclib.curves.curve import mult, secp256k1 as ec
from btclib.ecc import dsa
from btclib.number_theory import mod_inv

msg_hash = hashlib.sha256(b"f16").digest()
c = int.from_bytes(msg_hash, "big") % ec.n
k = 7
K = mult(k)
r = K[0] % ec.n
s = c * mod_inv(k, ec.n) % ec.n  # s*K == c*G  =>  Q = r^-1 (s*K - c*G) = INF
sig = dsa.Sig(r, s, ec)
seen = {}
for serving in (True, False):
    curves.set_libsecp256k1_serving(serving=serving)
    for key_id in (0, 1):
        try:
            dsa.recover_pub_key_(key_id, msg_hash, sig)
            seen[(serving, key_id)] = "answered"
        except Exception as e:  # noqa: BLE001
            seen[(serving, key_id)] = type(e).__name__
curves.set_libsecp256k1_serving(serving=True)
print(seen)
bad = any(seen[(True, i)] != seen[(False, i)] for i in (0, 1))
sys.exit(1 if bad else 0)
