"""F22 (C01, C19): is_on_curve range-checked y and not x: (x + p, y) was "on the curve". The
Python arithmetic multiplied it as x's point; with libsecp256k1 serving, mult() raised a bare
OverflowError. Exit 1 when present."""
import sys
from btclib import curves
from btclib.curves.curve import mult, secp256k1 as ec
from btclib.exceptions import BTClibValueError

Q = mult(5)
bad = (Q[0] + ec.p, Q[1])
n = 0
for serving in (True, False):
    curves.set_libsecp256k1_serving(serving=serving)
    try:
        mult(3, bad)
        print(f"DEFECT (bindings serving={serving}): answered for an x that is not a field element")
        n += 1
    except BTClibValueError as e:
        print(f"ok (serving={serving}): refused: {str(e)[:50]}")
    except Exception as e:  # noqa: BLE001
        print(f"DEFECT (serving={serving}): {type(e).__name__}: {e}")
        n += 1
curves.set_libsecp256k1_serving(serving=True)
sys.exit(1 if n else 0)
