"""F51 (C20): the amount and fee-rate conversions ran under a copy of the caller's Decimal context: with
getcontext().prec = 5, btc_from_sats(123456789) was Decimal('1.2346'), valid_btc_amount('1.23456789') and
sats_from_btc of it a bare decimal.InvalidOperation, and FeeRate(123456789).sats_per_vbyte 1.2346E+5.
Exit 1 when present."""
import decimal
import sys

from btclib.amount import btc_from_sats, sats_from_btc, valid_btc_amount
from btclib.fee import FeeRate

want = (btc_from_sats(123456789), valid_btc_amount("1.23456789"), sats_from_btc(decimal.Decimal("1.23456789")), FeeRate(sats_per_kvbyte=123456789).sats_per_vbyte)
decimal.getcontext().prec = 5
bad = []
for name, f in (("btc_from_sats", lambda: btc_from_sats(123456789)), ("valid_btc_amount", lambda: valid_btc_amount("1.23456789")),
                ("sats_from_btc", lambda: sats_from_btc(decimal.Decimal("1.23456789"))), ("sats_per_vbyte", lambda: FeeRate(sats_per_kvbyte=123456789).sats_per_vbyte)):
    try:
        got = f()
    except Exception as e:  # noqa: BLE001
        got = type(e).__name__
    bad.append((name, got))
bad = [(n, g) for (n, g), w in zip(bad, want) if g != w]
for b in bad:
    print("DEFECT:", b)
print("ok" if not bad else "")
sys.exit(1 if bad else 0)
