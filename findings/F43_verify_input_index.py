"""F43 (C19): verify_input([prev], tx, 1) on a one-input transaction, and verify_input([], tx, 0), raised a
builtin IndexError. Exit 1 when present."""
import sys
from btclib.exceptions import BTClibException
from btclib.script.engine import verify_input
from btclib.tx.out_point import OutPoint
from btclib.tx.tx import Tx
from btclib.tx.tx_in import TxIn
from btclib.tx.tx_out import TxOut

prev = TxOut(1000, b"\x51")
tx = Tx(2, 0, [TxIn(OutPoint(b"\x01" * 32, 0), b"", 0xFFFFFFFF)], [TxOut(900, b"\x51")])
bad = []
for prevouts, i in (([prev], 1), ([], 0), ([prev], 5)):
    try:
        verify_input(prevouts, tx, i)
    except BTClibException:
        pass
    except Exception as e:  # noqa: BLE001
        bad.append((len(prevouts), i, type(e).__name__))
for b in bad:
    print("DEFECT: non-library exception:", b)
print("ok" if not bad else "")
sys.exit(1 if bad else 0)
