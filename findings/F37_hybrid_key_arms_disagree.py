"""F37 (C04, C02): dsa.verify of a hybrid (06/07) public key was True with the bindings serving and False
without, and dsa.sign(pub_key=hybrid) signed on one arm and raised on the other. Exit 1 when present."""
import sys
from btclib.curves import mult
from btclib.curves.curve import set_libsecp256k1_serving
from btclib.ecc import dsa

q = 12345
Q = mult(q)
hyb = bytes([6 + (Q[1] & 1)]) + Q[0].to_bytes(32, "big") + Q[1].to_bytes(32, "big")
sig = dsa.sign(b"msg", q)
answers = []
for serving in (True, False):
    set_libsecp256k1_serving(serving=serving)
    try:
        s = "signed" if dsa.sign(b"msg", q, pub_key=hyb) else "?"
    except Exception as e:  # noqa: BLE001
        s = type(e).__name__
    answers.append((dsa.verify(b"msg", hyb, sig), s))
set_libsecp256k1_serving(serving=True)
# F37b: the first version of the repair hashed a slice of the key, which a bytearray key cannot be: a valid key
# held in a bytearray must still verify
sec = bytes([2 + (Q[1] & 1)]) + Q[0].to_bytes(32, "big")
try:
    held = dsa.verify(b"msg", bytearray(sec), sig)
except TypeError as e:
    held = f"TypeError: {e}"
if held is not True:
    print(f"DEFECT: a valid key held in a bytearray: {held}")
    sys.exit(1)
ok = answers[0] == answers[1]
print("ok" if ok else f"DEFECT: (verify, sign) with the bindings {answers[0]}, without {answers[1]}")
sys.exit(0 if ok else 1)
