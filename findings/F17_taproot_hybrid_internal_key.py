"""F17 (C04): taproot.output_pubkey accepted a hybrid (0x06/0x07) internal key when libsecp256k1
served and refused it ('not a point: prefix 0x06') on the Python arithmetic. Exit 1 when present."""
import sys
from btclib import curves
from btclib.curves.curve import mult, secp256k1 as ec
from btclib.curves.sec_point import bytes_from_point
from btclib.script import taproot

Q = mult(5)
unc = bytes_from_point(Q, ec, compressed=False)
hyb = bytes([6 + (Q[1] & 1)]) + unc[1:]
seen = {}
for serving in (True, False):
    curves.set_libsecp256k1_serving(serving=serving)
    try:
        taproot.output_pubkey(hyb)
        seen[serving] = "accepted"
    except Exception as e:  # noqa: BLE001
        seen[serving] = f"{type(e).__name__}: {e}"
curves.set_libsecp256k1_serving(serving=True)
print(seen)
sys.exit(0 if seen[True] == seen[False] else 1)
