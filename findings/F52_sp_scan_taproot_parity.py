"""F52 (C16/C20): silent_payments.scan_transaction_outputs, Python arm (bindings off): a p2tr input whose key the
caller holds as an odd-y point was summed as given, where the sender (prv_key_sum) and the bindings arm read it
x-only; 0 of the sender's outputs were found. Exit 1 when present."""
import sys

import btclib.curves.curve as curve_mod

curve_mod._libsecp256k1_available = False  # the Python arm is the one with the defect

from btclib import silent_payments as sp  # noqa: E402
from btclib.curves import mult  # noqa: E402
from btclib.tx.out_point import OutPoint  # noqa: E402

b_scan, b_spend = 0x5CA9, 0x59E9D
B_spend = mult(b_spend)
address = sp.address_from_keys(mult(b_scan), B_spend)
bad = []
for parity in (0, 1):
    a_tr = 0xB0B0
    while mult(a_tr)[1] % 2 != parity:
        a_tr += 1
    a_wpkh = 0xD00D
    spk_wpkh = b"\x00\x14" + bytes(20)
    spk_tr = b"\x51\x20" + mult(a_tr)[0].to_bytes(32, "big")
    outpoints = [OutPoint(bytes(range(32)), 1), OutPoint(bytes(range(1, 33)), 0)]
    outputs = sp.output_keys([(a_wpkh, spk_wpkh), (a_tr, spk_tr)], outpoints, [address])
    found = sp.scan_transaction_outputs(b_scan, B_spend, outpoints, [(mult(a_wpkh), spk_wpkh), (mult(a_tr), spk_tr)], outputs)
    if sorted(f.pub_key for f in found) != sorted(outputs):
        bad.append(f"taproot key with {'odd' if parity else 'even'} y: {len(found)} of {len(outputs)} outputs found")
for b in bad:
    print("DEFECT:", b)
print("ok" if not bad else "")
sys.exit(1 if bad else 0)
