"""bech32.decode refuses HRP characters BIP173 allows (33..47, 123..126).
BIP173: the HRP "MUST contain 1 to 83 US-ASCII characters, with each character
having a value in the range [33-126]"; the reference decoder checks
ord(x) < 33 or ord(x) > 126. btclib accepts 48..122 only, and its own test
suite pins '/' (47) and '{' (123) as refused, so it cannot be repaired without
editing tests. Exits 1 while the deviation is present."""
import sys
from btclib import bech32
bad = []
for hrp in ("a-b", "a~b", "a!b", "{x", "a.b", "/"):
    s = bech32.encode(hrp, [1, 2, 3], m=1).decode()
    try:
        assert bech32.decode(s, m=1) == (hrp, [1, 2, 3])
    except Exception as e:  # noqa: BLE001
        bad.append((hrp, s, str(e)))
for b in bad:
    print("refused a BIP173-valid string:", b)
sys.exit(1 if bad else 0)
