#!/venv/bin/python
"""Regenerate MANIFEST.json from the per-property table below."""
import json, os
HERE = os.path.dirname(os.path.abspath(__file__))
PY = "/venv/bin/python"
import importlib, importlib.util, sys
sys.path.insert(0, HERE)
from manifest_table import ADDED, CLAIMED, NOT_APPLICABLE, TIERS  # noqa: E402

import re  # noqa: E402


def rule_inventory(pid: str) -> str:
    """One line per rule of the property, from the rule's own docstring (so the manifest lists what the check runs today)."""
    mod = importlib.import_module(f"rules.{pid}")
    items = []
    for name, fn in mod.RULES:
        doc = " ".join((fn.__doc__ or "").split())
        doc = re.sub(rf"^{re.escape(name)}:\s*", "", doc)
        first = re.split(r"(?<=[a-z)\]])\. (?=[A-Z(`])", doc, maxsplit=1)[0].rstrip(".")
        items.append(f"{name.split('.', 1)[1]}: {first[:220]}")
    return f" Rules run ({len(items)}): " + "; ".join(items) + "."


checks = []
for pid, d in sorted(CLAIMED.items()):
    checks.append({
        "property_id": pid,
        "quick_cmd": f"{PY} /verif/check {pid} --tier quick",
        "thorough_cmd": f"{PY} /verif/check {pid} --tier thorough",
        "evidence_file": f"/verif/evidence/{pid}.json",
        "replay_cmd_template": f"{PY} /verif/check {pid} --replay {{path}}",
        "engine": "sa",
        "level_claimed": {"category": "other", "text": d["text"] + (" " + ADDED[pid] if pid in ADDED else "") + rule_inventory(pid) + TIERS, "design_ref": d.get("design_ref", f"DESIGN.md section 4 {pid}")},
        "level_note": d["note"],
        "technique": d["technique"],
    })
m = {
    "version": 1,
    "setup_cmd": "true",
    "hooks": {"guard": "BTCLIB_VERIF", "enable": "none needed: static analysis reads the source; no hook exists in /repo",
              "baseline_off_cmd": "cd /repo && /venv/bin/python -m pytest -ra -q -p no:cacheprovider --timeout=900 --continue-on-collection-errors",
              "source_commits": [], "add_only": True},
    "engines": [{"name": "sa", "path": "/verif/sa", "serves_properties": sorted(CLAIMED),
                 "kind_free_text": "repository-specific static analysis: ast loader + import-aware resolver, constant folder, statement CFG with guard facts, call graph, layout/table/range extractors; rules in /verif/rules"}],
    "checks": checks,
    "notes": "Static analysis only: every check parses /repo's working tree on each run and imports nothing from it. Each claimed property is decided only in the structural clauses its level_note names; value-level clauses are not decided (DESIGN.md sections 4 and 6). Exit 2 + ANALYSIS-ERROR means the checker is broken (vanished anchor, floor, control), not the code.",
    "not_applicable": [{"property_id": k, "reason": v} for k, v in sorted(NOT_APPLICABLE.items())],
}
with open(os.path.join(HERE, "MANIFEST.json"), "w") as f:
    json.dump(m, f, indent=1)
print("claimed", len(checks), "n/a", len(NOT_APPLICABLE))
