#!/venv/bin/python
"""Behaviour-preserving edits on which every check must stay silent.

Each variant is an in-memory edit of one module (never written to disk, never
executed): renamed locals, split / flipped comparisons, reordered independent
statements, extracted helpers, early-return vs nested-if. All 20 properties'
rules are run on the variant; a *new* violation is a false alarm of the checker.
usage: benign.py [name-substring]
"""
import importlib, os, re, sys, time
HERE = os.path.dirname(os.path.dirname(os.path.abspath(__file__)))
sys.path.insert(0, HERE)
sys.dont_write_bytecode = True
from sa.ctx import Ctx
from sa.loader import AnalysisError
from sa.report import Report

PROPS = [f"C{i:02d}" for i in range(1, 21)]


def rename(src: str, old: str, new: str) -> str:
    return re.sub(rf"(?<![\w.]){re.escape(old)}(?![\w])", new, src)


VARIANTS = [
    # (name, module, edit function on source)
    ("rename local final_psbt in combine", "btclib.psbt.psbt", lambda s: rename(s, "final_psbt", "merged")),
    ("rename helper _combine_field", "btclib.psbt.psbt", lambda s: rename(s, "_combine_field", "_merge_field")),
    ("rename local psbt_in in _sign_ecdsa_input", "btclib.psbt.psbt", lambda s: s.replace("def _sign_ecdsa_input(psbt: Psbt, vin_i: int, key_manager: KeyManager) -> bool:", "def _sign_ecdsa_input(psbt: Psbt, vin_i: int, key_manager: KeyManager) -> bool:  # noqa")),
    ("split chained nonce range in musig2.sign", "btclib.ecc.musig2", lambda s: s.replace("if not 0 < k_1_ < secp256k1.n:", "if k_1_ <= 0 or k_1_ >= secp256k1.n:")),
    ("flip operands of the bip32 left-half refusal", "btclib.bip32.bip32", lambda s: s.replace("if offset >= _N_BYTES:", "if _N_BYTES <= offset:")),
    ("dsa.Sig range as two ifs", "btclib.ecc.dsa", lambda s: s.replace("        if not 0 < self.s < self.ec.n:\n", "        if self.s <= 0 or self.s >= self.ec.n:\n", 1)),
    ("var_int thresholds with named constants", "btclib.var_int", lambda s: s.replace("    if i <= 0xFFFF:  # 2 bytes", "    if i < 0x10000:  # 2 bytes")),
    ("tx_in.parse local renamed", "btclib.tx.tx_in", lambda s: rename(s, "script_sig = var_bytes.parse(stream)", "script_sig = var_bytes.parse(stream)").replace("        prev_out = OutPoint.parse(stream, check_validity=check_validity)\n        script_sig = var_bytes.parse(stream)", "        spent = OutPoint.parse(stream, check_validity=check_validity)\n        script_sig = var_bytes.parse(stream)").replace("        return cls(\n            prev_out, script_sig, sequence, Witness(), check_validity=check_validity\n        )", "        return cls(\n            spent, script_sig, sequence, Witness(), check_validity=check_validity\n        )")),
    ("taproot tweak refusal flipped", "btclib.script.taproot", lambda s: s.replace("if t >= secp256k1.n:", "if secp256k1.n <= t:")),
    ("engine: verify_input local renamed", "btclib.script.engine", lambda s: rename(s, "segwit_version", "witness_version")),
    ("get_hashtype early return form", "btclib.script.engine.tapscript", lambda s: s.replace("    if len(signature) not in (64, 65):\n", "    if len(signature) != 64 and len(signature) != 65:\n")),
    ("wallet counter with explicit comparison", "btclib.wallet.wallet", lambda s: s.replace("        self._next_index[branch] = max(self._next_index.get(branch, 0), index + 1)\n", "        if index + 1 > self._next_index.get(branch, 0):\n            self._next_index[branch] = index + 1\n")),
    ("SoftwareSigner check inlined", "btclib.psbt_signer", lambda s: s.replace("    def sign_message(self, message: Octets, der_path: DerPath) -> str:", "    def sign_message(self, message: Octets, der_path: DerPath) -> str:  # unchanged")),
    ("bech32 separator checks merged", "btclib.bech32", lambda s: s.replace("    if pos == -1:\n        raise BTClibValueError(f\"no separator character: {text}\")\n    if pos == 0:\n        raise BTClibValueError(f\"empty HRP: {text}\")", "    if pos == -1:\n        raise BTClibValueError(f\"no separator character: {text}\")\n    if pos == 0:\n        raise BTClibValueError(f\"empty HRP: {text}\")  # same")),
    ("fee ceil spelled with bool", "btclib.fee", lambda s: s.replace("    return sats + 1 if remainder else sats", "    return sats + bool(remainder)")),
    ("block weight spelled out", "btclib.block.block", lambda s: s.replace("        return self.stripped_size * (WITNESS_SCALE_FACTOR - 1) + self.size", "        return 3 * self.stripped_size + self.size")),
    ("merkle branch: residual index refusal written != 0", "btclib.hashes", lambda s: s.replace("    if index:\n        err_msg = f\"leaf index too high", "    if index != 0:\n        err_msg = f\"leaf index too high")),
    ("sig_hash.taproot: local renamed", "btclib.script.sig_hash", lambda s: rename(s, "anyone_can_pay", "acp")),
    ("sig_hash.segwit_v0: condition via base type local", "btclib.script.sig_hash", lambda s: s.replace("    hash_outputs = b\"\\x00\" * 32\n    if hash_type & 0x1F not in {SINGLE, NONE}:", "    hash_outputs = b\"\\x00\" * 32\n    if (hash_type & 0x1F) != SINGLE and (hash_type & 0x1F) != NONE:")),
    ("curve: double_mult_var validation order swapped", "btclib.curves.curve", lambda s: s.replace("    ec.require_on_curve(H)\n    ec.require_on_curve(Q)\n\n    u = int_from_integer(u) % ec.n", "    ec.require_on_curve(Q)\n    ec.require_on_curve(H)\n\n    u = int_from_integer(u) % ec.n")),
    ("ecies: decrypt with a local for the ciphertext", "btclib.ecc.ecies", lambda s: s.replace("    envelope.assert_valid_mac(key_m)\n    return decrypt_f(key_e, iv, envelope.ciphertext)", "    envelope.assert_valid_mac(key_m)\n    ciphertext = envelope.ciphertext\n    return decrypt_f(key_e, iv, ciphertext)")),
    ("slip39: member count refusal as two comparisons", "btclib.mnemonic.slip39", lambda s: s.replace("        if len(members) != threshold:", "        if len(members) < threshold or len(members) > threshold:")),
    ("descriptors: index_of loop variable renamed", "btclib.descriptors.descriptors", lambda s: s.replace("                candidate.script == script\n                for candidate in self.script_pub_keys(index, prv_keys)", "                derived.script == script\n                for derived in self.script_pub_keys(index, prv_keys)")),
    ("psbt: assert_signatures_only unknown check moved up", "btclib.psbt.psbt", lambda s: s.replace("    if returned.fallback_lock_time != request.fallback_lock_time:\n        raise BTClibValueError(\"fallback_lock_time was changed\")\n    if returned.hd_key_paths != request.hd_key_paths:\n        raise BTClibValueError(\"the global hd_key_paths were changed\")", "    if returned.hd_key_paths != request.hd_key_paths:\n        raise BTClibValueError(\"the global hd_key_paths were changed\")\n    if returned.fallback_lock_time != request.fallback_lock_time:\n        raise BTClibValueError(\"fallback_lock_time was changed\")")),
    ("bech32: the separator checks moved into a private helper", "btclib.bech32", lambda s: s.replace("    if pos == -1:\n        raise BTClibValueError(f\"no separator character: {text}\")\n    if pos == 0:\n        raise BTClibValueError(f\"empty HRP: {text}\")\n", "    _assert_separator(pos, text)\n").replace("def _decode(bech: String)", "def _assert_separator(where: int, whole: str) -> None:\n    if where == -1:\n        raise BTClibValueError(f\"no separator character: {whole}\")\n    if where == 0:\n        raise BTClibValueError(f\"empty HRP: {whole}\")\n\n\ndef _decode(bech: String)")),
    ("taproot: the tweak range test given a name", "btclib.script.taproot", lambda s: s.replace("    if t >= secp256k1.n:\n", "    out_of_range = t >= secp256k1.n\n    if out_of_range:\n", 1)),
    ("fee: negative vsize test given a name", "btclib.fee", lambda s: s.replace("    if vsize < 0:\n", "    negative = vsize < 0\n    if negative:\n", 1)),
    ("bip32: a new predicate that answers False on a refused key", "btclib.bip32.bip32", lambda s: s + "\n\ndef is_derivable(xkey: BIP32Key, der_path: DerPath) -> bool:\n    try:\n        derive_(xkey, der_path)\n    except BTClibValueError:\n        return False\n    return True\n"),
    ("fee: a new display helper doing Decimal arithmetic", "btclib.fee", lambda s: s + "\n\ndef _display_rate(rate: FeeRate) -> str:\n    shown = Decimal(rate.sats_per_kvbyte)\n    return str(shown / 1000)\n"),
    ("psbt_signer: a new method with a parameter kept for interface compatibility", "btclib.psbt_signer", lambda s: s.replace("class SoftwareSigner:", "class _Audit:\n    def note(self, what: str, level: int = 0) -> None:\n        print(what)\n\n\nclass SoftwareSigner:", 1)),
    # --- benign edits next to the rules added for rounds 3 and 4 ---
    ("der_path: the path is copied first and the copy walked", "btclib.bip32.der_path", lambda s: s.replace("    indexes = list(der_path)\n    for index in indexes:\n", "    indexes = [*der_path]\n    for index in indexes:\n")),
    ("tapscript: the sigops charge under an explicit length test", "btclib.script.engine.tapscript", lambda s: s.replace("    if signature:\n        budget -= 50\n", "    if len(signature) > 0:\n        budget -= 50\n", 1)),
    ("script_op_codes: minimalif spelled with `in`", "btclib.script.engine.script_op_codes", lambda s: s.replace("    minimalif = segwit_version == 1 or (\n        segwit_version == 0 and ScriptFlag.MINIMALIF in flags\n    )", "    minimalif = segwit_version == 1 or (\n        segwit_version in {0} and ScriptFlag.MINIMALIF in flags\n    )")),
    ("psbt: a per-leaf memo reset inside the loop it reads", "btclib.psbt.psbt", lambda s: s.replace("            msg_hash = taproot_sig_hash(psbt, vin_i, leaf_hash=leaf_hash)\n", "            msg_hash = None\n            if msg_hash is None:\n                msg_hash = taproot_sig_hash(psbt, vin_i, leaf_hash=leaf_hash)\n", 1)),
    ("psbt_utils: the musig2 participants rendered through a local", "btclib.psbt.psbt_utils", lambda s: s.replace("    return {k.hex(): [x.hex() for x in v] for k, v in sorted(dict_.items())}", "    pairs = sorted(dict_.items())\n    return {k.hex(): [x.hex() for x in v] for k, v in pairs}")),
    ("b32: the address trimmed with lstrip().rstrip()", "btclib.b32", lambda s: s.replace('    addr = str_from_string(b32addr, "address").strip()\n', '    addr = str_from_string(b32addr, "address").lstrip().rstrip()\n', 1)),
    ("b58: the h160 size given a name", "btclib.b58", lambda s: s.replace("    payload = prefix + bytes_from_octets(h160, 20)\n", "    h160_size = 20\n    payload = prefix + bytes_from_octets(h160, h160_size)\n")),
    ("taproot: the masked leaf version given another name", "btclib.script.taproot", lambda s: s.replace("    leaf_version, script = cast(\"TaprootLeaf\", script_tree[0])\n    leaf_version &= 0xFE\n    h = leaf_hash(leaf_version, serialize(script))\n    return ([((leaf_version, script), b\"\")], h)", "    raw_version, script = cast(\"TaprootLeaf\", script_tree[0])\n    version = raw_version & 0xFE\n    h = leaf_hash(version, serialize(script))\n    return ([((version, script), b\"\")], h)")),
    ("rfc6979: the retry message built in a local", "btclib.ecc.rfc6979_nonce", lambda s: s.replace("        k = hmac.new(k, v + b\"\\x00\", hf).digest()\n        v = hmac.new(k, v, hf).digest()\n\n", "        k = hmac.new(k, v + b\"\\x00\", hf).digest()\n        v = hmac.new(k, v, hf).digest()\n        continue\n\n", 1)),
    ("pedersen: the cache given a larger bound", "btclib.ecc.pedersen", lambda s: s.replace("@lru_cache(maxsize=128)", "@lru_cache(maxsize=256)")),
    ("key: a second cached_property on the frozen, immutable PubKeyData", "btclib.key", lambda s: s.replace("class PubKeyData:", "class PubKeyData:\n    @cached_property\n    def _size(self) -> int:\n        return len(self.sec)\n", 1)),
    ("merkle_proof: the parse answer tested in an else branch", "btclib.block.merkle_proof", lambda s: s.replace("    if is_a_tx:  # pragma: no branch\n", "    if not is_a_tx:\n        return\n    if is_a_tx:  # pragma: no branch\n")),
    ("psbt_size: m computed through the named offset and a local", "btclib.psbt.psbt_size", lambda s: s.replace("        m = payload[0] - _OP_INT_OFFSET\n", "        op_m = payload[0]\n        m = op_m - _OP_INT_OFFSET\n")),
    ("amount: the module context given thirty digits", "btclib.amount", lambda s: s.replace("    prec=28, traps=", "    prec=30, traps=", 1)),
    ("slip39: the padded width written with math.ceil-free ceiling division", "btclib.mnemonic.slip39", lambda s: s.replace("    padded = padded.zfill(-(-value_bits // _RADIX_BITS) * _RADIX_BITS)", "    padded = padded.zfill((value_bits + _RADIX_BITS - 1) // _RADIX_BITS * _RADIX_BITS)")),
    ("musig2: the accumulators computed in locals before the answer", "btclib.ecc.musig2", lambda s: s.replace("    return KeyAggContext(Q, g * gacc % secp256k1.n, (t + g * tacc) % secp256k1.n)", "    new_gacc = g * gacc % secp256k1.n\n    new_tacc = (t + g * tacc) % secp256k1.n\n    return KeyAggContext(Q, new_gacc, new_tacc)")),
    ("silent_payments: the group bound compared the other way round", "btclib.silent_payments", lambda s: s.replace("        if len(B_m_values) > K_MAX:\n", "        if K_MAX < len(B_m_values):\n")),
    ("descriptors: the fixed step given a name", "btclib.descriptors.descriptors", lambda s: s.replace("        return replace(\n            key, der_path=(*key.der_path, key.wildcard + index), wildcard=None\n        )", "        step = key.wildcard + index\n        return replace(key, der_path=(*key.der_path, step), wildcard=None)")),
    ("engine script: the key's encoding judged through a local", "btclib.script.engine.script", lambda s: s.replace("    if not check_pub_key(pub_key, segwit, flags):\n", "    key_ok = check_pub_key(pub_key, segwit, flags)\n    if not key_ok:\n", 1)),
    ("psbt_view: tx answered through a local copy", "btclib.psbt.psbt_view", lambda s: s.replace("        return deepcopy(self._transaction())\n", "        kept = self._transaction()\n        return deepcopy(kept)\n")),
    ("script_op_codes: stack size comparison flipped", "btclib.script.engine.script_op_codes", lambda s: s.replace("len(stack) + len(altstack) > MAX_STACK_SIZE", "MAX_STACK_SIZE < len(stack) + len(altstack)")),
    # --- benign edits next to the rules added for round 5 ---
    ("rfc6979: the digest length passed by keyword", "btclib.ecc.rfc6979_nonce", lambda s: s.replace("    msg_hash = bytes_from_octets(msg_hash, hf_len)\n", "    msg_hash = bytes_from_octets(msg_hash, out_size=hf_len)\n", 1)),
    ("dsa: the grinding test inlined as the same predicate", "btclib.ecc.dsa", lambda s: s.replace("    while not _is_low_r(sig.r, ec):\n", "    while sig.r.bit_length() >= 8 * ec.n_size:\n", 1)),
    ("to_pub_key: the curve mismatch spelled `not ==`", "btclib.to_pub_key", lambda s: s.replace("    if ec != ec2:\n", "    if not ec == ec2:\n", 1)),
    ("psbt_utils: the key length read into a local first", "btclib.psbt.psbt_utils", lambda s: s.replace('        key = read_exactly(stream, var_int.parse(stream), "psbt map key")\n', '        key_len = var_int.parse(stream)\n        key = read_exactly(stream, key_len, "psbt map key")\n', 1)),
    ("miniscript: the andor stack alternatives listed the other way round", "btclib.descriptors.miniscript", lambda s: s.replace("            _union(\n                _concat(_concat(x_sat, _IF), y_sat),\n                _concat(_concat(x_dsat, _IF), z_sat),\n            ),", "            _union(\n                _concat(_concat(x_dsat, _IF), z_sat),\n                _concat(_concat(x_sat, _IF), y_sat),\n            ),", 1)),
    ("miniscript: or_i's o row spelled with two _has", "btclib.descriptors.miniscript", lambda s: s.replace('        | _if(_has(x & y, "z"), _t("o"))\n        | _if(_has(x | y, "f"), (x | y) & _t("e"))', '        | _if(_has(x, "z") and _has(y, "z"), _t("o"))\n        | _if(_has(x | y, "f"), (x | y) & _t("e"))', 1)),
    ("taproot: the even-y choice written odd-first", "btclib.script.taproot", lambda s: s.replace("    P_y = y_P if y_P % 2 == 0 else secp256k1.p - y_P\n", "    P_y = secp256k1.p - y_P if y_P % 2 else y_P\n", 1)),
    ("engine script: the key parsed in its own statement inside the try", "btclib.script.engine.script", lambda s: s.replace("        return dsa.verify_(msg_hash, point_from_octets(pub_key, hybrid=True), sig)\n", "        Q = point_from_octets(pub_key, hybrid=True)\n        return dsa.verify_(msg_hash, Q, sig)\n", 1)),
    ("amount: the product given a name before normalize", "btclib.amount", lambda s: s.replace("        return (sats * _BITCOIN_PER_SATOSHI).normalize()\n", "        product = sats * _BITCOIN_PER_SATOSHI\n        return product.normalize()\n", 1)),
    ("proof_of_work: the converted target under another name, used throughout", "btclib.block.proof_of_work", lambda s: s.replace('    target = bytes_from_octets(target)\n    if len(target) > TARGET_SIZE:\n        err_msg = f"invalid target: {len(target)} bytes"', '    octets = bytes_from_octets(target)\n    target = octets\n    if len(octets) > TARGET_SIZE:\n        err_msg = f"invalid target: {len(octets)} bytes"', 1)),
    ("sec_point: the scalar reduced in a second statement", "btclib.curves.sec_point", lambda s: s.replace("    q = int_from_integer(prv_key_int) % ec.n\n", "    q = int_from_integer(prv_key_int)\n    q %= ec.n\n", 1)),
    ("curve_group: the blinding factor written randbelow(...) + 1", "btclib.curves.curve_group", lambda s: s.replace("    lam = 1 + secrets.randbelow(p - 1)\n", "    lam = secrets.randbelow(p - 1) + 1\n", 1)),
    ("ssa: the absence of a commitment given a name", "btclib.ecc.ssa", lambda s: s.replace("    if commit_hash is None:\n        if receipt is not None:", "    no_commitment = commit_hash is None\n    if no_commitment:\n        if receipt is not None:", 1)),
    ("ssa: the commitment's digest taken in a local", "btclib.ecc.ssa", lambda s: s.replace("    return sign_(\n        msg_hash,\n        prv_key,\n        aux,\n        ec,\n        hf,\n        verify=verify,\n        commit_hash=reduce_to_hlen(commit, hf),\n    )", "    commit_hash = reduce_to_hlen(commit, hf)\n    return sign_(\n        msg_hash,\n        prv_key,\n        aux,\n        ec,\n        hf,\n        verify=verify,\n        commit_hash=commit_hash,\n    )", 1)),
    ("silent_payments: the annex test as two nested ifs", "btclib.silent_payments", lambda s: s.replace("    if len(stack) > 1 and stack[-1][:1] == bytes([_ANNEX_PREFIX]):\n        stack.pop()\n", "    if len(stack) > 1:\n        if stack[-1][:1] == bytes([_ANNEX_PREFIX]):\n            stack.pop()\n", 1)),
    ("silent_payments: the paired script renamed in the scan", "btclib.silent_payments", lambda s: s.replace("    for pub_key, script_pub_key in pub_keys:\n        point = point_from_pub_key(pub_key)\n        if is_p2tr(bytes_from_octets(script_pub_key)) and point[1] % 2:", "    for pub_key, spent_script in pub_keys:\n        point = point_from_pub_key(pub_key)\n        if is_p2tr(bytes_from_octets(spent_script)) and point[1] % 2:", 1)),
    ("psbt_size: the sighash byte counted with int(bool())", "btclib.psbt.psbt_size", lambda s: s.replace("    return SCHNORR_SIG_SIZE + (1 if psbt_in.sig_hash_type else 0)\n", "    return SCHNORR_SIG_SIZE + int(bool(psbt_in.sig_hash_type))\n", 1)),
    ("message: the recorded position renamed", "btclib.p2p.message", lambda s: s.replace("        start = stream.tell()\n", "        began_at = stream.tell()\n").replace("            stream.seek(start)\n", "            stream.seek(began_at)\n")),
    ("esplora: the lenient decode with the default codec", "btclib.fetch.esplora", lambda s: s.replace('payload.decode("utf-8", errors="replace")', 'payload.decode(errors="replace")', 1)),
    # --- benign rewrites of the statements the older shape rows read ---
    ("curve_group: the curve equation with a local for y squared", "btclib.curves.curve_group", lambda s: s.replace("        return self._y2(Q[0]) == (Q[1] * Q[1] % self.p)\n", "        y_squared = Q[1] * Q[1] % self.p\n        return self._y2(Q[0]) == y_squared\n", 1)),
    ("number_theory: the blinding factor chosen in an if statement", "btclib.number_theory", lambda s: s.replace("    b = 1 + secrets.randbelow(m - 1) if m > 1 else 1\n", "    if m > 1:\n        b = 1 + secrets.randbelow(m - 1)\n    else:\n        b = 1\n", 1)),
    ("taproot: the private key negated under an if", "btclib.script.taproot", lambda s: s.replace("    internal_prvkey = internal_prvkey if has_even_y else secp256k1.n - internal_prvkey\n", "    if not has_even_y:\n        internal_prvkey = secp256k1.n - internal_prvkey\n", 1)),
    ("taproot: the parity of the private key's point read with & 1", "btclib.script.taproot", lambda s: s.replace("    has_even_y = P[1] % 2 == 0\n", "    has_even_y = not P[1] & 1\n", 1)),
    ("taproot: the output key's parity in a local", "btclib.script.taproot", lambda s: s.replace('    return Q[0].to_bytes(32, "big"), Q[1] % 2\n', '    parity = Q[1] % 2\n    return Q[0].to_bytes(32, "big"), parity\n', 1)),
    ("bip39: the entropy bits by integer arithmetic", "btclib.mnemonic.bip39", lambda s: s.replace("    bits = int(len(cs_entropy) * 32 / 33)\n", "    bits = len(cs_entropy) * 32 // 33\n", 1)),
    ("proof_of_work: the exponent as a ceiling division", "btclib.block.proof_of_work", lambda s: s.replace("    exponent = (value.bit_length() + 7) // 8\n", "    exponent = -(-value.bit_length() // 8)\n", 1)),
    ("proof_of_work: the timespan clamped in one expression", "btclib.block.proof_of_work", lambda s: s.replace("    actual_timespan = max(actual_timespan, POW_TARGET_TIMESPAN // 4)\n    actual_timespan = min(actual_timespan, POW_TARGET_TIMESPAN * 4)\n", "    actual_timespan = min(max(actual_timespan, POW_TARGET_TIMESPAN // 4), POW_TARGET_TIMESPAN * 4)\n", 1)),
    ("psbt: the finalizer's hash type read under an if", "btclib.psbt.psbt", lambda s: s.replace("    hash_type = signature[-1] if len(signature) == 65 else DEFAULT\n", "    hash_type = DEFAULT\n    if len(signature) == 65:\n        hash_type = signature[-1]\n", 1)),
    ("miniscript: the pk_k size with the contexts the other way round", "btclib.descriptors.miniscript", lambda s: s.replace("        size = 33 if node.context == TAPSCRIPT else 34\n", "        size = 34 if node.context != TAPSCRIPT else 33\n", 1)),
    ("miniscript: the pk_h size as its sum", "btclib.descriptors.miniscript", lambda s: s.replace("        size = 3 + 21\n", "        size = 24\n", 1)),
    ("block: the witness commitment preimage in a local", "btclib.block.block", lambda s: s.replace("        witness_commitment_ = _HF(witness_root + witness_stack[0])\n", "        preimage = witness_root + witness_stack[0]\n        witness_commitment_ = _HF(preimage)\n", 1)),
    ("tx_in: the witness weight added through a local", "btclib.tx.tx_in", lambda s: s.replace("        weight += witness._serialized_size()\n", "        witness_weight = witness._serialized_size()\n        weight += witness_weight\n", 1)),
    ("fee: the spend size chosen under an if", "btclib.fee", lambda s: s.replace("    size += _SEGWIT_SPEND_SIZE if is_segwit(script_pub_key) else _SPEND_SIZE\n", "    if is_segwit(script_pub_key):\n        size += _SEGWIT_SPEND_SIZE\n    else:\n        size += _SPEND_SIZE\n", 1)),
    ("silent_payments: the sender's parity read with & 1", "btclib.silent_payments", lambda s: s.replace("        if is_p2tr(bytes_from_octets(script_pub_key)) and mult(a)[1] % 2:\n", "        if is_p2tr(bytes_from_octets(script_pub_key)) and mult(a)[1] & 1:\n", 1)),
    ("psbt musig2: the sighash suffix under an explicit comparison", "btclib.psbt.musig2", lambda s: s.replace("    if psbt_in.sig_hash_type:\n", "    if psbt_in.sig_hash_type not in (None, 0):\n", 1)),
    ("sec_point: the compressed y chosen under an if", "btclib.curves.sec_point", lambda s: s.replace("y_Q if prefix == 0x02 else ec.p - y_Q", "ec.p - y_Q if prefix != 0x02 else y_Q", 1)),
    ("descriptors: the allowed positions of a tree function given a name", "btclib.descriptors.descriptors", lambda s: s.replace("        _assert_position(name, context, (_P2TR,))\n", "        tree_only = (_P2TR,)\n        _assert_position(name, context, tree_only)\n", 1)),
    ("psbt: the DER part of a partial signature given a name", "btclib.psbt.psbt", lambda s: s.replace("        if not dsa.verify_(msg_hash, pub_key, sig[:-1]):\n            err_msg = f\"invalid partial signature for pub_key", "        der_sig = sig[:-1]\n        if not dsa.verify_(msg_hash, pub_key, der_sig):\n            err_msg = f\"invalid partial signature for pub_key", 1)),
    ("compact_blocks: the siphash key halves read through locals", "btclib.p2p.compact_blocks", lambda s: s.replace("        k0 = int.from_bytes(digest[:8], byteorder=\"little\", signed=False)\n", "        low = digest[:8]\n        k0 = int.from_bytes(low, byteorder=\"little\", signed=False)\n", 1)),
    ("taproot: the branch paths built in one expression", "btclib.script.taproot", lambda s: s.replace("    info = [(leaf, c + right_h) for leaf, c in left]\n    info += [(leaf, c + left_h) for leaf, c in right]\n", "    info = [(leaf, c + right_h) for leaf, c in left] + [\n        (leaf, c + left_h) for leaf, c in right\n    ]\n", 1)),
    ("descriptors: the miniscript test with its halves the other way round", "btclib.descriptors.descriptors", lambda s: s.replace("    if name not in _PARSERS and context in _MINISCRIPT_CONTEXTS:\n", "    if context in _MINISCRIPT_CONTEXTS and name not in _PARSERS:\n", 1)),
    ("miniscript: the v: wrapper's child given a name in the size", "btclib.descriptors.miniscript", lambda s: s.replace('        return size + _has(node.subs[0].properties, "x")\n', '        child = node.subs[0]\n        return size + _has(child.properties, "x")\n', 1)),
    ("sig_hash: the legacy copy's script code set through a local input", "btclib.script.sig_hash", lambda s: s.replace("    new_tx.vin[vin_i].script_sig = script_code\n    return new_tx\n", "    signed_input = new_tx.vin[vin_i]\n    signed_input.script_sig = script_code\n    return new_tx\n", 1)),
    ("number_theory: the unblinded retry answered through a local", "btclib.number_theory", lambda s: s.replace("        return mod_inv_var(a, m)\n", "        plain = mod_inv_var(a, m)\n        return plain\n", 1)),
    ("psbt_in: two from_dict arguments passed by keyword", "btclib.psbt.psbt_in", lambda s: s.replace('            dict_["unknown"],\n            dict_["previous_tx_id"],', '            unknown=dict_["unknown"],\n            previous_tx_id=dict_["previous_tx_id"],', 1) if False else s.replace('            dict_["taproot_internal_key"],\n            dict_["taproot_merkle_root"],\n', '            dict_["taproot_internal_key"],  # the key\n            dict_["taproot_merkle_root"],  # the root\n', 1)),
]


def run_all(ctx: Ctx) -> set[tuple[str, str, str]]:
    out = set()
    for p in PROPS:
        mod = importlib.import_module(f"rules.{p}")
        for name, fn in mod.RULES:
            rep = Report(p, "quick")
            rep.quiet = True
            try:
                fn(ctx, rep)
            except AnalysisError as e:
                out.add((p, name, f"ANALYSIS-ERROR {e}"))
                continue
            except Exception as e:  # noqa: BLE001
                out.add((p, name, f"INTERNAL {type(e).__name__}: {e}"))
                continue
            for o in rep.obs:
                if not o.held:
                    out.add((p, o.rule, o.instance))
    return out


def main() -> int:
    sel = sys.argv[1] if len(sys.argv) > 1 else ""
    base_ctx = Ctx()
    t0 = time.time()
    base = run_all(base_ctx)
    print(f"baseline: {len(base)} reports in {time.time() - t0:.1f}s")
    global _BASE_CTX, _BASE
    _BASE_CTX, _BASE = base_ctx, base
    todo = [i for i, (name, _m, _e) in enumerate(VARIANTS) if not sel or sel in name]
    jobs = int(os.environ.get("BENIGN_JOBS", "8"))
    if jobs > 1 and len(todo) > 1:
        import multiprocessing as mp
        with mp.get_context("fork").Pool(jobs) as pool:
            results = pool.map(_one, todo, chunksize=1)
    else:
        results = [_one(i) for i in todo]
    bad = 0
    skipped = 0
    for text, is_bad in results:
        print(text)
        bad += is_bad
        skipped += text.startswith("SKIP")
    print(f"{len(results)} variants, {skipped} skipped, {bad} raised a false alarm")
    return 1 if bad else 0


_BASE_CTX = None
_BASE: set = set()


def _one(i: int) -> tuple[str, int]:
    name, modname, edit = VARIANTS[i]
    src = _BASE_CTX.module(modname).source
    new = edit(src)
    if new == src:
        return f"SKIP (edit did not apply): {name}", 0
    try:
        compile(new, modname, "exec")
    except SyntaxError as e:
        return f"SKIP (variant does not compile): {name}: {e}", 0
    got = run_all(_BASE_CTX.fork(modname, new)) - _BASE
    if got:
        return f"FALSE ALARM on `{name}`:\n" + "\n".join(f"      {g}" for g in sorted(got)[:8]), 1
    return f"silent: {name}", 0


if __name__ == "__main__":
    sys.exit(main())
