#!/venv/bin/python
"""Fragility survey: for every function the rules look at, rename all of its
locals (x -> x_rn) in memory and re-run every rule. Renaming a local never
changes behaviour, so any new report is a false alarm of a rule that matched
on a temporary's name.
usage: rename_locals.py [module-substring] [-j N]
"""
import ast, importlib, multiprocessing as mp, os, sys, time
HERE = os.path.dirname(os.path.dirname(os.path.abspath(__file__)))
sys.path.insert(0, HERE)
sys.dont_write_bytecode = True
from sa.ctx import Ctx
from sa.loader import AnalysisError
from sa.report import Report

PROPS = [f"C{i:02d}" for i in range(1, 21)]


def run_all(ctx, touched=None):
    out = set()
    for p in PROPS:
        mod = importlib.import_module(f"rules.{p}")
        for name, fn in mod.RULES:
            rep = Report(p, "quick")
            rep.quiet = True
            try:
                fn(ctx, rep)
            except AnalysisError as e:
                out.add((p, name, f"ANALYSIS-ERROR {str(e)[:120]}"))
                continue
            except Exception as e:  # noqa: BLE001
                out.add((p, name, f"INTERNAL {type(e).__name__}: {str(e)[:120]}"))
                continue
            for o in rep.obs:
                if not o.held:
                    out.add((p, o.rule, o.instance))
    return out


def renamed_source(src: str, fnode: ast.AST) -> str | None:
    """src with the locals of fnode renamed; None when it has none to rename."""
    params, excl = set(), set()
    for n in ast.walk(fnode):
        if isinstance(n, ast.arg):
            (params if n in _own_args(fnode) else excl).add(n.arg)
        elif isinstance(n, (ast.Global, ast.Nonlocal)):
            excl |= set(n.names)
        elif isinstance(n, ast.ExceptHandler) and n.name:
            excl.add(n.name)
        elif isinstance(n, (ast.MatchAs, ast.MatchStar)) and n.name:
            excl.add(n.name)
        elif isinstance(n, ast.MatchMapping) and n.rest:
            excl.add(n.rest)
        elif isinstance(n, (ast.FunctionDef, ast.AsyncFunctionDef, ast.ClassDef)) and n is not fnode:
            excl.add(n.name)
        elif isinstance(n, (ast.Import, ast.ImportFrom)):
            excl |= {(a.asname or a.name).split(".")[0] for a in n.names}
    stored = {n.id for n in ast.walk(fnode) if isinstance(n, ast.Name) and isinstance(n.ctx, (ast.Store, ast.Del))}
    names = stored - params - excl
    if not names:
        return None
    lines = src.splitlines(keepends=True)
    edits = []
    for n in ast.walk(fnode):
        if isinstance(n, ast.Name) and n.id in names:
            edits.append((n.lineno, n.col_offset, n.end_col_offset, n.id))
    # ast columns are utf-8 byte offsets
    by_line = {}
    for ln, c0, c1, name in edits:
        by_line.setdefault(ln, []).append((c0, c1, name))
    for ln, es in by_line.items():
        b = lines[ln - 1].encode()
        for c0, c1, name in sorted(set(es), reverse=True):
            if b[c0:c1].decode() != name:
                return None  # f-string positions etc.: skip this function rather than guess
            b = b[:c0] + (name + "_rn").encode() + b[c1:]
        lines[ln - 1] = b.decode()
    return "".join(lines)


FLIP = {ast.Lt: ast.Gt, ast.Gt: ast.Lt, ast.LtE: ast.GtE, ast.GtE: ast.LtE, ast.Eq: ast.Eq, ast.NotEq: ast.NotEq}


def flipped_source(src: str, fnode: ast.AST) -> str | None:
    """src with every two-operand comparison of fnode written the other way
    round (`a < b` -> `b > a`, `a == b` -> `b == a`): the same predicate."""
    mod = ast.parse(src)
    target = None
    for n in ast.walk(mod):
        if isinstance(n, type(fnode)) and n.lineno == fnode.lineno and n.name == fnode.name:
            target = n
    if target is None:
        return None
    changed = False

    class T(ast.NodeTransformer):
        def visit_Compare(self, n: ast.Compare):
            nonlocal changed
            self.generic_visit(n)
            if len(n.ops) == 1 and type(n.ops[0]) in FLIP and not isinstance(n.left, ast.Constant) or \
                    (len(n.ops) == 1 and type(n.ops[0]) in FLIP and not isinstance(n.comparators[0], ast.Constant)):
                changed = True
                return ast.Compare(left=n.comparators[0], ops=[FLIP[type(n.ops[0])]()], comparators=[n.left])
            return n

    T().visit(target)
    if not changed:
        return None
    ast.fix_missing_locations(target)
    text = ast.unparse(target)
    first = min([target.lineno] + [d.lineno for d in target.decorator_list])
    indent = " " * target.col_offset
    lines = src.splitlines(keepends=True)
    new = "".join(indent + l + "\n" for l in text.splitlines())
    return "".join(lines[: first - 1]) + new + "".join(lines[target.end_lineno:])


def named_cond_source(src: str, fnode: ast.AST) -> str | None:
    """src with every refusing `if <comparison>: ... raise` of fnode rewritten as
    `cond_k = <comparison>` / `if cond_k: ...`: the same refusal behind a name."""
    mod = ast.parse(src)
    target = None
    for n in ast.walk(mod):
        if isinstance(n, type(fnode)) and n.lineno == fnode.lineno and n.name == fnode.name:
            target = n
    if target is None:
        return None
    k = 0

    def rewrite(body: list[ast.stmt]) -> list[ast.stmt]:
        nonlocal k
        out = []
        for st in body:
            for f in ("body", "orelse", "finalbody"):
                if hasattr(st, f) and isinstance(getattr(st, f), list) and not isinstance(st, (ast.FunctionDef, ast.AsyncFunctionDef, ast.ClassDef)):
                    setattr(st, f, rewrite(getattr(st, f)))
            if isinstance(st, ast.Try):
                for h in st.handlers:
                    h.body = rewrite(h.body)
            if isinstance(st, ast.If) and isinstance(st.test, ast.Compare) and not st.orelse and st.body and isinstance(st.body[-1], ast.Raise) \
                    and not any(isinstance(x, ast.NamedExpr) for x in ast.walk(st.test)):
                k += 1
                name = f"cond_{k}"
                out.append(ast.Assign(targets=[ast.Name(id=name, ctx=ast.Store())], value=st.test, lineno=st.lineno))
                st.test = ast.Name(id=name, ctx=ast.Load())
            out.append(st)
        return out

    target.body = rewrite(target.body)
    if not k:
        return None
    ast.fix_missing_locations(target)
    text = ast.unparse(target)
    first = min([target.lineno] + [d.lineno for d in target.decorator_list])
    indent = " " * target.col_offset
    lines = src.splitlines(keepends=True)
    new = "".join(indent + l + "\n" for l in text.splitlines())
    return "".join(lines[: first - 1]) + new + "".join(lines[target.end_lineno:])


def _own_args(fnode):
    a = fnode.args
    return set(a.posonlyargs + a.args + a.kwonlyargs + ([a.vararg] if a.vararg else []) + ([a.kwarg] if a.kwarg else []))


_BASE = None
_BASE_REPORTS = None
MODE = "flip" if "--flip" in sys.argv else "name" if "--name-cond" in sys.argv else "rename"


def _init():
    global _BASE, _BASE_REPORTS
    _BASE = Ctx()
    _BASE_REPORTS = run_all(_BASE)


def work(job):
    modname, qual = job
    mi = _BASE.module(modname)
    fi = _BASE.prog.functions[qual]
    new = {"flip": flipped_source, "name": named_cond_source, "rename": renamed_source}[MODE](mi.source, fi.node)
    if new is None:
        return qual, None
    try:
        compile(new, modname, "exec")
    except SyntaxError:
        return qual, None
    got = run_all(_BASE.fork(modname, new)) - _BASE_REPORTS
    return qual, sorted(got)


def main():
    args = [a for i, a in enumerate(sys.argv[1:], 1) if not a.startswith("-") and sys.argv[i - 1] not in ("--only", "-j")]
    print(f"mode: {MODE}")
    jobs_n = int(sys.argv[sys.argv.index("-j") + 1]) if "-j" in sys.argv else 14
    if "-j" in sys.argv:
        args = [a for a in args if a != sys.argv[sys.argv.index("-j") + 1]]
    sel = args[0] if args else ""
    only = None
    if "--only" in sys.argv:  # a file of qualified names, one per line (e.g. the functions a previous run flagged)
        only = {l.strip() for l in open(sys.argv[sys.argv.index("--only") + 1]) if l.strip()}
        sel = ""
    # the functions the rules look at: every function named in a rules module's source, plus all methods of classes named there
    ctx = Ctx()
    text = "".join(open(os.path.join(HERE, "rules", f)).read() for f in os.listdir(os.path.join(HERE, "rules")) if f.endswith(".py"))
    jobs = []
    for q, fi in sorted(ctx.prog.functions.items()):
        short = q.rsplit(".", 1)[1]
        if fi.parent is not None:
            continue
        if sel and sel not in q:
            continue
        if only is not None and q not in only:
            continue
        if short in text or (fi.cls is not None and fi.cls.name in text):
            jobs.append((fi.module.name, q))
    print(f"{len(jobs)} functions to rename", flush=True)
    t0 = time.time()
    bad = 0
    with mp.Pool(jobs_n, initializer=_init) as pool:
        for qual, got in pool.imap_unordered(work, jobs, chunksize=4):
            if got:
                bad += 1
                print(f"FALSE ALARM {'flipping the comparisons' if MODE == 'flip' else 'naming the refusing conditions' if MODE == 'name' else 'renaming the locals'} of {qual}:")
                for g in got[:6]:
                    print("     ", g)
                sys.stdout.flush()
    print(f"{bad} functions whose locals the rules depend on; {time.time() - t0:.0f}s")
    return 1 if bad else 0


if __name__ == "__main__":
    sys.exit(main())
