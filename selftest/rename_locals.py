#!/venv/bin/python
"""Fragility survey: for every function the rules look at, rename all of its
locals (x -> x_rn) in memory and re-run every rule. Renaming a local never
changes behaviour, so any new report is a false alarm of a rule that matched
on a temporary's name.
usage: rename_locals.py [module-substring] [-j N]
"""
import ast, importlib, multiprocessing as mp, os, sys, time
HERE = os.path.dirname(os.path.dirname(os.path.abspath(__file__)))
sys.path.insert(0, HERE)
sys.dont_write_bytecode = True
from sa.ctx import Ctx
from sa.loader import AnalysisError
from sa.report import Report

PROPS = [f"C{i:02d}" for i in range(1, 21)]


_RULE_TEXT = {p: open(os.path.join(HERE, "rules", f"{p}.py")).read() for p in PROPS}


def props_for(modname: str, qual: str, cls_name: str | None) -> list[str]:
    """The properties whose rule files name this function, its class, or its module (with --narrow)."""
    short = qual.rsplit(".", 1)[1]
    last = modname.rsplit(".", 1)[-1]
    return [p for p in PROPS if short in _RULE_TEXT[p] or (cls_name and cls_name in _RULE_TEXT[p]) or f"{modname}" in _RULE_TEXT[p] or f".{last}" in _RULE_TEXT[p]]


def run_all(ctx, touched=None):
    out = set()
    for p in (touched or PROPS):
        mod = importlib.import_module(f"rules.{p}")
        for name, fn in mod.RULES:
            rep = Report(p, "quick")
            rep.quiet = True
            try:
                fn(ctx, rep)
            except AnalysisError as e:
                out.add((p, name, f"ANALYSIS-ERROR {str(e)[:120]}"))
                continue
            except Exception as e:  # noqa: BLE001
                out.add((p, name, f"INTERNAL {type(e).__name__}: {str(e)[:120]}"))
                continue
            for o in rep.obs:
                if not o.held:
                    out.add((p, o.rule, o.instance))
    return out


from sa.variants import extracted_source, flipped_source, named_cond_source, renamed_source  # noqa: E402


_BASE = None
_BASE_REPORTS = None
MODE = "flip" if "--flip" in sys.argv else "name" if "--name-cond" in sys.argv else "extract" if "--extract" in sys.argv else "rename"


def _init():
    global _BASE, _BASE_REPORTS
    _BASE = Ctx()
    _BASE_REPORTS = run_all(_BASE)


def work(job):
    modname, qual = job
    mi = _BASE.module(modname)
    fi = _BASE.prog.functions[qual]
    new = {"flip": flipped_source, "name": named_cond_source, "rename": renamed_source, "extract": extracted_source}[MODE](mi.source, fi.node)
    if new is None:
        return qual, None
    try:
        compile(new, modname, "exec")
    except SyntaxError:
        return qual, None
    props = props_for(modname, qual, fi.cls.name if fi.cls is not None else None) if "--narrow" in sys.argv else None
    got = run_all(_BASE.fork(modname, new), props) - _BASE_REPORTS
    return qual, sorted(got)


def main():
    args = [a for i, a in enumerate(sys.argv[1:], 1) if not a.startswith("-") and sys.argv[i - 1] not in ("--only", "-j")]
    print(f"mode: {MODE}")
    jobs_n = int(sys.argv[sys.argv.index("-j") + 1]) if "-j" in sys.argv else 14
    if "-j" in sys.argv:
        args = [a for a in args if a != sys.argv[sys.argv.index("-j") + 1]]
    sel = args[0] if args else ""
    only = None
    if "--only" in sys.argv:  # a file of qualified names, one per line (e.g. the functions a previous run flagged)
        only = {l.strip() for l in open(sys.argv[sys.argv.index("--only") + 1]) if l.strip()}
        sel = ""
    # the functions the rules look at: every function named in a rules module's source, plus all methods of classes named there
    ctx = Ctx()
    text = "".join(open(os.path.join(HERE, "rules", f)).read() for f in os.listdir(os.path.join(HERE, "rules")) if f.endswith(".py"))
    jobs = []
    for q, fi in sorted(ctx.prog.functions.items()):
        short = q.rsplit(".", 1)[1]
        if fi.parent is not None:
            continue
        if sel and sel not in q:
            continue
        if only is not None and q not in only:
            continue
        if short in text or (fi.cls is not None and fi.cls.name in text):
            jobs.append((fi.module.name, q))
    print(f"{len(jobs)} functions to rename", flush=True)
    t0 = time.time()
    bad = 0
    with mp.Pool(jobs_n, initializer=_init) as pool:
        for qual, got in pool.imap_unordered(work, jobs, chunksize=4):
            if got:
                bad += 1
                print(f"FALSE ALARM {'flipping the comparisons' if MODE == 'flip' else 'naming the refusing conditions' if MODE == 'name' else 'extracting returns, first arguments and conditional expressions' if MODE == 'extract' else 'renaming the locals'} of {qual}:")
                for g in got[:6]:
                    print("     ", g)
                sys.stdout.flush()
    print(f"{bad} functions whose locals the rules depend on; {time.time() - t0:.0f}s")
    return 1 if bad else 0


if __name__ == "__main__":
    sys.exit(main())
