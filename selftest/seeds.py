#!/venv/bin/python
"""Regression over the kept seeded changes: each /verif/seeded/<id>/patch.diff is
applied to a scratch copy of /repo's btclib tree (never to /repo), the check of
the property it breaks is run on the copy (VERIF_REPO), and must exit 1 with a
VIOLATION line. The copy is removed afterwards.
usage: seeds.py [id-substring] [--all-props]
"""
import json, os, shutil, subprocess, sys, tempfile
from concurrent.futures import ThreadPoolExecutor
HERE = os.path.dirname(os.path.dirname(os.path.abspath(__file__)))
SEEDED = os.path.join(HERE, "seeded")


def one(sid: str) -> tuple[str, bool, str]:
    if sid.startswith("/"):  # a not-yet-kept seed in an agent's worktree: /tmp/wt_Cxx/_seed/k
        d = sid
        import re as _re
        prop = _re.search(r"/(?:wt|r2|r3|r4|r5|r6)_(C\d\d)/", sid).group(1)
    else:
        d = os.path.join(SEEDED, sid)
        prop = json.load(open(os.path.join(d, "meta.json")))["property"]
    tmp = tempfile.mkdtemp(prefix="seedchk_", dir="/dev/shm" if os.path.isdir("/dev/shm") else None)
    try:
        shutil.copytree("/repo/btclib", os.path.join(tmp, "btclib"), ignore=shutil.ignore_patterns("__pycache__"))
        r = subprocess.run(["patch", "-p1", "-s", "-i", os.path.join(d, "patch.diff")], cwd=tmp, capture_output=True, text=True)
        if r.returncode:
            return sid, False, "patch does not apply: " + (r.stdout + r.stderr).strip()[:200]
        env = dict(os.environ, VERIF_REPO=tmp, VERIF_NO_STABILITY="1")
        o = subprocess.run(["/venv/bin/python", os.path.join(HERE, "check"), prop, "--tier", "thorough", "--no-write", "--no-controls"],
                           capture_output=True, text=True, env=env, timeout=600)
        rules = sorted({l.split(" ")[1] for l in o.stdout.splitlines() if " -- " in l and not l.startswith("KNOWN") and len(l.split(" ")) > 1})
        ok = o.returncode == 1 and "VIOLATION property=" + prop in o.stdout
        return sid, ok, f"rc={o.returncode} rules={rules}"
    finally:
        shutil.rmtree(tmp, ignore_errors=True)


def main() -> int:
    sel = [a for a in sys.argv[1:] if not a.startswith("--")]
    ids = sorted(x for x in os.listdir(SEEDED) if os.path.isfile(os.path.join(SEEDED, x, "patch.diff")) and (not sel or any(s in x for s in sel)))
    if "--pending" in sys.argv:
        import glob
        kept = set(ids)
        import re as _re
        for d in sorted(glob.glob("/tmp/wt_C*/_seed/[0-9]*")) + sorted(glob.glob("/tmp/r2_C*/_seed/[0-9]*")) + sorted(glob.glob("/tmp/r3_C*/_seed/[0-9]*")) + sorted(glob.glob("/tmp/r4_C*/_seed/[0-9]*")) + sorted(glob.glob("/tmp/r5_C*/_seed/[0-9]*")) + sorted(glob.glob("/tmp/r6_C*/_seed/[0-9]*")):
            k = _re.search(r"_(C\d\d)/", d).group(1) + ("-r2-" if "/r2_" in d else "-r3-" if "/r3_" in d else "-r4-" if "/r4_" in d else "-r5-" if "/r5_" in d else "-r6-" if "/r6_" in d else "-") + os.path.basename(d)
            if os.path.isfile(os.path.join(d, "patch.diff")) and k not in kept and (not sel or any(s in k for s in sel)):
                ids.append(d)
    bad = declined = 0
    with ThreadPoolExecutor(8) as ex:
        for sid, ok, msg in ex.map(one, ids):
            why = None
            if not sid.startswith("/"):
                why = json.load(open(os.path.join(SEEDED, sid, "meta.json"))).get("declined")
            if why and not ok:
                declined += 1
                print("declined " + sid + "  (not decided by this technique: " + why[:80] + "...)")
                continue
            print(("caught " if ok else "MISSED ") + sid + "  " + msg)
            bad += not ok
    print(f"{len(ids) - bad - declined}/{len(ids)} seeded changes caught, {declined} declined as value-level, {bad} missed")
    return 1 if bad else 0


if __name__ == "__main__":
    sys.exit(main())
