#!/bin/bash
# confirm_seeds3.sh <worktree> [jobs] : for each _seed/<k>: demo fails with the patch, passes without,
# full suite unchanged with it (the failing ids are printed so they can be compared with the baseline's three).
WT=$1
J=${2:-4}
cd $WT || exit 1
git checkout -q -- .
for d in _seed/[0-9]*; do
  k=$(basename $d)
  [ -f $d/patch.diff ] || continue
  git checkout -q -- .
  PYTHONPATH=$WT /venv/bin/python $d/demo.py > /tmp/demo_clean_$$.txt 2>&1; rc_clean=$?
  if ! git apply $d/patch.diff; then echo "$WT $k APPLY-FAILED"; continue; fi
  PYTHONPATH=$WT /venv/bin/python $d/demo.py > /tmp/demo_patched_$$.txt 2>&1; rc_patched=$?
  PYTHONPATH=$WT /venv/bin/python -m pytest -q -rf -n $J -p no:cacheprovider --timeout=1800 --continue-on-collection-errors > /tmp/suite_$$.txt 2>&1
  git checkout -q -- .
  failed=$(grep '^FAILED' /tmp/suite_$$.txt | sed 's/ - .*//' | awk '{print $2}' | sort | tr '\n' ' ')
  echo "$WT $k demo_clean=$rc_clean demo_patched=$rc_patched suite: $(tail -1 /tmp/suite_$$.txt) failed: $failed"
  rm -f /tmp/suite_$$.txt /tmp/demo_clean_$$.txt /tmp/demo_patched_$$.txt
done
