#!/bin/bash
# confirm_seeds.sh <worktree> : for each _seed/<k>: demo fails with the patch, passes without, full suite unchanged with it.
WT=$1
cd $WT || exit 1
git checkout -q -- . 
for d in _seed/[0-9]*; do
  k=$(basename $d)
  [ -f $d/patch.diff ] || continue
  git checkout -q -- .
  PYTHONPATH=$WT /venv/bin/python $d/demo.py > /tmp/demo_clean.txt 2>&1; rc_clean=$?
  if ! git apply $d/patch.diff; then echo "$WT $k APPLY-FAILED"; continue; fi
  PYTHONPATH=$WT /venv/bin/python $d/demo.py > /tmp/demo_patched_$$.txt 2>&1; rc_patched=$?
  suite=$(PYTHONPATH=$WT /venv/bin/python -m pytest -q -n 4 -p no:cacheprovider --timeout=1800 --continue-on-collection-errors 2>&1 | tail -1)
  git checkout -q -- .
  echo "$WT $k demo_clean=$rc_clean demo_patched=$rc_patched suite: $suite"
done
