#!/venv/bin/python
"""Apply a seeded change to /repo, run the checks, always undo it.

usage: try_seed.py <patch.diff> [Cxx ...]   (default: all 20)
Prints, per property, exit code and the violation lines. /repo is restored
with `git checkout -- .` whatever happens.
"""
import subprocess, sys, os
patch = os.path.abspath(sys.argv[1])
props = sys.argv[2:] or [f"C{i:02d}" for i in range(1, 21)]
assert subprocess.run(["git", "-C", "/repo", "status", "--porcelain"], capture_output=True, text=True).stdout.strip() == "", "/repo is not clean"
r = subprocess.run(["git", "-C", "/repo", "apply", patch], capture_output=True, text=True)
if r.returncode:
    print("APPLY FAILED", r.stderr); sys.exit(3)
try:
    for p in props:
        o = subprocess.run(["/venv/bin/python", "/verif/check", p, "--tier", "quick", "--no-write"], capture_output=True, text=True, timeout=300)
        lines = [l for l in o.stdout.splitlines() if "VIOLATION" in l or "ANALYSIS-ERROR" in l or (" -- " in l and not l.startswith("KNOWN"))]
        if o.returncode:
            print(f"{p} rc={o.returncode}")
            for l in lines[:8]:
                print("    ", l[:260])
finally:
    subprocess.run(["git", "-C", "/repo", "checkout", "--", "."], check=True)
    assert subprocess.run(["git", "-C", "/repo", "status", "--porcelain"], capture_output=True, text=True).stdout.strip() == ""
print("done; /repo restored")
