#!/venv/bin/python
"""keep_seed.py <prop> <k> <confirm-line...> : copy a confirmed seeded change into /verif/seeded/<prop>-<k>/
and record which rules report it (by applying it to /repo, running the property's check, and undoing it)."""
import json, os, re, shutil, subprocess, sys
prop, k = sys.argv[1], sys.argv[2]
confirm = " ".join(sys.argv[3:])
ROUND = os.environ.get("SEED_ROUND", "1")
PFX = {"1": "wt", "2": "r2", "3": "r3", "4": "r4", "5": "r5", "6": "r6"}[ROUND]
ROUND2 = ROUND == "2"
src = f"/tmp/{PFX}_{prop}/_seed/{k}"
dst = f"/verif/seeded/{prop}-{'' if ROUND == '1' else 'r' + ROUND + '-'}{k}"
os.makedirs(dst, exist_ok=True)
for f in ("patch.diff", "demo.py", "notes.md"):
    if os.path.exists(os.path.join(src, f)) or f != "notes.md":
        shutil.copy(os.path.join(src, f), os.path.join(dst, f))
    else:
        open(os.path.join(dst, f), "w").write("(the seeding agent left no notes)\n")
# run the property's check on a scratch copy of btclib/ with the patch applied (never on /repo itself)
import importlib.util
_spec = importlib.util.spec_from_file_location("seeds", "/verif/selftest/seeds.py")
_seeds = importlib.util.module_from_spec(_spec)
_spec.loader.exec_module(_seeds)
json.dump({"property": prop}, open(os.path.join(dst, "meta.json"), "w"))
_sid, caught, _msg = _seeds.one(os.path.basename(dst))
rules = sorted(set(re.findall(r"'(C\d\d\.[a-z_0-9]+)'", _msg)))
notes = open(os.path.join(dst, "notes.md")).read()
meta = {
    "property": prop,
    "files_touched": sorted(set(re.findall(r"^\+\+\+ b/(\S+)", open(os.path.join(dst, "patch.diff")).read(), re.M))),
    "needs_to_manifest": notes[:1500],
    "confirmed_by_me": confirm,
    "what_i_ran": [f"/verif/selftest/confirm_seeds.sh /tmp/{PFX}_{prop}  (demo on clean tree -> exit 0; git apply patch; demo -> exit 1; full pytest suite with the patch -> same counts as baseline; git checkout -- .)",
                   f"/verif/selftest/seeds.py {prop}-{k}  (patch applied to a scratch copy of /repo/btclib; VERIF_REPO=<copy> /verif/check {prop} --tier thorough; copy removed)"],
    "caught_by_check": caught,
    "reporting_rules": rules,
}
json.dump(meta, open(os.path.join(dst, "meta.json"), "w"), indent=1)
print(dst, "caught" if caught else "MISSED", rules)
